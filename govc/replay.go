package main

// Replay of counterexamples on the real code via `go test -overlay` (nothing is written into /repo).

import (
	"bytes"
	"context"
	"encoding/json"
	"fmt"
	"go/types"
	"os"
	"os/exec"
	"path/filepath"
	"strings"
	"time"
)

type replayOut struct {
	path       string
	reproduced bool
	input      string
}

type ReplayFile struct {
	Property   string            `json:"property"`
	Obligation string            `json:"obligation"`
	Kind       string            `json:"kind"`
	Unit       string            `json:"unit"`
	Detail     string            `json:"detail"`
	SolverOut  string            `json:"solver_output,omitempty"`
	Inputs     map[string]string `json:"inputs,omitempty"`
	PkgDir     string            `json:"pkg_dir,omitempty"`
	TestSource string            `json:"test_source,omitempty"`
	Outcome    string            `json:"outcome"`
	Output     string            `json:"replay_output,omitempty"`
	Note       string            `json:"note,omitempty"`
}

func pkgDirOf(full string) string {
	pat := pkgPatternOf(full)
	if pat == "./..." {
		return ""
	}
	return filepath.Join(repoDir, strings.TrimPrefix(pat, "./"))
}

func writeReplayFile(cr *checkRun, v violation, rf *ReplayFile) string {
	if rf == nil {
		rf = &ReplayFile{Outcome: "no-failing-input-found"}
	}
	rf.Property = cr.prop.ID
	rf.Obligation = v.Obligation
	rf.Kind = v.Kind
	rf.Unit = v.Unit
	if rf.Detail == "" {
		rf.Detail = v.Detail
	}
	dir := filepath.Join(verifDir, "replays")
	os.MkdirAll(dir, 0o755)
	path := filepath.Join(dir, cr.prop.ID+"-"+slug(v.Obligation)+".json")
	b, _ := json.MarshalIndent(rf, "", " ")
	os.WriteFile(path, b, 0o644)
	return path
}

const replayHelpers = `
func govcMk(s string, ln, cp int, guard byte) []byte {
	if cp < ln { cp = ln }
	b := make([]byte, cp)
	copy(b, s)
	for i := len(s); i < cp; i++ { b[i] = guard }
	return b[:ln]
}
func mkbytes(s string, guard byte) []byte { return govcMk(s, len(s), len(s)+1, guard) }
`

// runGoTest injects a test file into package directory pkgDir through an overlay and runs it.
func runGoTest(pkgDir, testSrc string) (string, error) {
	work, err := os.MkdirTemp(filepath.Join(verifDir, ".work"), "replay")
	if err != nil {
		os.MkdirAll(filepath.Join(verifDir, ".work"), 0o755)
		work, err = os.MkdirTemp(filepath.Join(verifDir, ".work"), "replay")
		if err != nil {
			return "", err
		}
	}
	defer os.RemoveAll(work)
	tf := filepath.Join(work, "zz_govc_replay_test.go")
	os.WriteFile(tf, []byte(testSrc), 0o644)
	ov := map[string]map[string]string{"Replace": {filepath.Join(pkgDir, "zz_govc_replay_test.go"): tf}}
	ob, _ := json.Marshal(ov)
	ovf := filepath.Join(work, "overlay.json")
	os.WriteFile(ovf, ob, 0o644)
	ctx, cancel := context.WithTimeout(context.Background(), 120*time.Second)
	defer cancel()
	cmd := exec.CommandContext(ctx, "go", "test", "-tags=verif", "-overlay", ovf, "-vet=off", "-count=1", "-timeout", "60s", "-run", "^TestGovcReplay$", "-v", ".")
	cmd.Dir = pkgDir
	cmd.Env = append(os.Environ(), "GOFLAGS=-mod=mod", "GOPROXY=off", "GOSUMDB=off", "GOTOOLCHAIN=local")
	var out bytes.Buffer
	cmd.Stdout = &out
	cmd.Stderr = &out
	err = cmd.Run()
	return out.String(), err
}

func pkgNameOf(prog *Program, full string) string {
	if fi, ok := prog.Funcs[full]; ok {
		return fi.Pkg.Name
	}
	return "minify"
}

// replayBounded: run the harness natively on the witness.
func replayBounded(cr *checkRun, harness string, bv BViolation) replayOut {
	fi, ok := cr.prog.Funcs[harness]
	if !ok {
		return replayOut{}
	}
	sig := fi.Obj.Type().(*types.Signature)
	var args []string
	for i := 0; i < sig.Params().Len(); i++ {
		args = append(args, bv.Inputs[sig.Params().At(i).Name()])
	}
	src := fmt.Sprintf(`package %s

import (
	"fmt"
	"testing"
)
%s
func TestGovcReplay(t *testing.T) {
	defer func() {
		if r := recover(); r != nil {
			fmt.Println("GOVC-REPLAY: panic:", r)
		}
	}()
	ok := %s(%s)
	fmt.Println("GOVC-REPLAY: harness returned", ok)
}
`, fi.Pkg.Name, replayHelpers, fi.Obj.Name(), strings.Join(args, ", "))
	pkgDir := pkgDirOf(harness)
	out, _ := runGoTest(pkgDir, src)
	rf := &ReplayFile{Inputs: bv.Inputs, PkgDir: pkgDir, TestSource: src, Output: clipS(out, 4000), Detail: bv.Msg + " | path: " + bv.Domains}
	repro := strings.Contains(out, "GOVC-REPLAY: panic:") || strings.Contains(out, "GOVC-REPLAY: harness returned false")
	if repro {
		rf.Outcome = "reproduced"
	} else {
		rf.Outcome = "not-reproduced"
		rf.Note = "the interpreter reported a violating path but the natively compiled harness passed on the witness input"
	}
	v := violation{Obligation: shortName(harness) + "#bounded", Kind: "bounded", Unit: harness, Detail: bv.Msg}
	path := writeReplayFile(cr, v, rf)
	return replayOut{path: path, reproduced: repro, input: fmtInputs(bv.Inputs)}
}

// replayObligation: obtain a model for a failed unbounded obligation and run the real function on it.
func replayObligation(cr *checkRun, full string, o *Oblig) replayOut {
	v := violation{Obligation: o.Name, Kind: o.Kind, Unit: full, Detail: fmt.Sprintf("%s (%s)", o.Res.Status, strings.Join(o.Res.Tried, " "))}
	rf := &ReplayFile{Outcome: "no-failing-input-found", SolverOut: clipS(o.Res.Output, 2000)}
	if o.Res.Status != "sat" || o.Cover {
		rf.Note = "the solver returned no model (" + o.Res.Status + "); the obligation is reported as violated because it is part of the claimed set and no longer discharges"
		return replayOut{path: writeReplayFile(cr, v, rf)}
	}
	fi, ok := cr.prog.Funcs[full]
	if !ok || !strings.HasPrefix(full, modPath) {
		rf.Note = "no replay for functions outside /repo"
		return replayOut{path: writeReplayFile(cr, v, rf)}
	}
	vc := o.vc
	sig := fi.Obj.Type().(*types.Signature)
	if sig.Recv() != nil {
		rf.Note = "model found; replay of methods is not generated"
		return replayOut{path: writeReplayFile(cr, v, rf)}
	}
	// phase 1: scalar components of all parameters
	type pinfo struct {
		name string
		val  Val
	}
	var ps []pinfo
	var want []*Term
	for _, po := range vc.params {
		pv := vc.entry.vars[po]
		ps = append(ps, pinfo{po.Name(), pv})
		for _, c := range pv.C {
			if c.Sort == SInt || c.Sort == SBool {
				want = append(want, c)
			}
		}
	}
	q := o.query()
	q.Values = want
	res := Solve(q, 10, 30)
	if res.Status != "sat" || len(res.Values) != len(want) {
		rf.Note = "model extraction failed (" + res.Status + ")"
		return replayOut{path: writeReplayFile(cr, v, rf)}
	}
	vals := map[int]string{}
	for i, w := range want {
		vals[w.id] = res.Values[i]
	}
	getI := func(t *Term) (int64, bool) { return parseIntValue(vals[t.id]) }
	// phase 2: fix scalars, fetch slice cells
	var fix []*Term
	for i, w := range want {
		if w.Sort == SInt {
			if x, ok := parseIntValue(res.Values[i]); ok {
				fix = append(fix, Eq(w, IntK(x)))
			}
		}
	}
	type cellReq struct {
		p, k int
	}
	var cells []*Term
	var creq []cellReq
	for pi, p := range ps {
		if kindOf(p.val.T) == KSlice && kindOf(elemTypeOf(p.val.T)) == KInt {
			cp, ok1 := getI(p.val.Cap())
			off, ok2 := getI(p.val.Off())
			arr, ok3 := getI(p.val.Arr())
			if !ok1 || !ok2 || !ok3 || cp > 4096 {
				continue
			}
			et := elemTypeOf(p.val.T)
			h := vc.entryHeap(heapNameFor(et, layout(et)[0]))
			for k := int64(0); k < cp; k++ {
				cells = append(cells, Select(Select(h, IntK(arr)), IntK(off+k)))
				creq = append(creq, cellReq{pi, int(k)})
			}
		}
	}
	cellVals := map[cellReq]int64{}
	if len(cells) > 0 {
		q2 := o.query()
		q2.Assumes = append(q2.Assumes, fix...)
		q2.Values = cells
		r2 := Solve(q2, 10, 30)
		if r2.Status == "sat" && len(r2.Values) == len(cells) {
			for i, cr := range creq {
				if x, ok := parseIntValue(r2.Values[i]); ok {
					cellVals[cr] = x
				}
			}
		}
	}
	// build Go arguments
	inputs := map[string]string{}
	var args []string
	supported := true
	for pi, p := range ps {
		switch kindOf(p.val.T) {
		case KInt:
			x, _ := getI(p.val.C[0])
			inputs[p.name] = fmt.Sprintf("%s(%d)", typeKey(p.val.T), x)
		case KBool:
			inputs[p.name] = vals[p.val.C[0].id]
		case KSlice:
			ln, _ := getI(p.val.Len())
			cp, _ := getI(p.val.Cap())
			arr, _ := getI(p.val.Arr())
			if kindOf(elemTypeOf(p.val.T)) != KInt || cp > 4096 {
				supported = false
				break
			}
			if arr == 0 {
				inputs[p.name] = "[]byte(nil)"
				break
			}
			var sb strings.Builder
			for k := int64(0); k < cp; k++ {
				sb.WriteByte(byte(cellVals[cellReq{pi, int(k)}]))
			}
			inputs[p.name] = fmt.Sprintf("govcMk(%q, %d, %d, 0)", sb.String(), ln, cp)
		default:
			supported = false
		}
		args = append(args, inputs[p.name])
	}
	rf.Inputs = inputs
	if !supported {
		rf.Note = "model found but a parameter type is outside the replay generator's reach"
		return replayOut{path: writeReplayFile(cr, v, rf)}
	}
	// harness for this unit, if any
	harnessCall := ""
	for _, b := range cr.prop.Bounded {
		if b.For == full {
			if hfi, ok := cr.prog.Funcs[b.Harness]; ok {
				hs := hfi.Obj.Type().(*types.Signature)
				if hs.Params().Len() == len(args) {
					harnessCall = fmt.Sprintf("\tfmt.Println(\"GOVC-REPLAY: harness returned\", %s(%s))\n", hfi.Obj.Name(), strings.Join(args, ", "))
				}
			}
		}
	}
	call := fmt.Sprintf("%s(%s)", fi.Obj.Name(), strings.Join(args, ", "))
	if sig.Results().Len() > 0 {
		call = "_r := []interface{}{" + "0}; _ = _r; fmt.Println(\"GOVC-REPLAY: returned\", fmt.Sprint(" + call + "))"
		if sig.Results().Len() > 1 {
			call = fmt.Sprintf("%s(%s)", fi.Obj.Name(), strings.Join(args, ", "))
		}
	}
	src := fmt.Sprintf(`package %s

import (
	"fmt"
	"testing"
)
%s
func TestGovcReplay(t *testing.T) {
	defer func() {
		if r := recover(); r != nil {
			fmt.Println("GOVC-REPLAY: panic:", r)
		}
	}()
%s	%s
}
`, fi.Pkg.Name, replayHelpers, harnessCall, call)
	pkgDir := pkgDirOf(full)
	out, _ := runGoTest(pkgDir, src)
	rf.PkgDir, rf.TestSource, rf.Output = pkgDir, src, clipS(out, 4000)
	repro := strings.Contains(out, "GOVC-REPLAY: panic:") || strings.Contains(out, "GOVC-REPLAY: harness returned false")
	if repro {
		rf.Outcome = "reproduced"
	} else {
		rf.Outcome = "no-failing-input-found"
		rf.Note = "the model did not make the real code panic or fail its harness (internal obligation, abstraction, or a contract clause the replay cannot evaluate natively)"
	}
	return replayOut{path: writeReplayFile(cr, v, rf), reproduced: repro, input: fmtInputs(inputs)}
}

// replayFile re-runs a stored replay against the current tree.
func replayFile(p *PropSpec, path string) int {
	b, err := os.ReadFile(path)
	if err != nil {
		fmt.Println("cannot read replay file:", err)
		return 2
	}
	var rf ReplayFile
	if err := json.Unmarshal(b, &rf); err != nil {
		fmt.Println("bad replay file:", err)
		return 2
	}
	if rf.TestSource == "" || rf.PkgDir == "" {
		fmt.Printf("replay file names obligation %q but carries no executable input (%s)\n", rf.Obligation, rf.Outcome)
		fmt.Printf("VIOLATION property=%s replay=%s obligation=%q no-failing-input-found\n", p.ID, path, rf.Obligation)
		return 1
	}
	out, _ := runGoTest(rf.PkgDir, rf.TestSource)
	fmt.Println(out)
	if strings.Contains(out, "GOVC-REPLAY: panic:") || strings.Contains(out, "GOVC-REPLAY: harness returned false") {
		fmt.Printf("VIOLATION property=%s replay=%s obligation=%q reproduced input: %s\n", p.ID, path, rf.Obligation, fmtInputs(rf.Inputs))
		return 1
	}
	fmt.Println("replay did not reproduce on the current tree")
	return 0
}
