package main

import (
	"fmt"
	"go/ast"
	"go/constant"
	"go/token"
	"go/types"
	"math/big"
	"strconv"
)

func (vc *VC) typeOf(e ast.Expr) types.Type {
	if tv, ok := vc.info.Types[e]; ok {
		return tv.Type
	}
	if id, ok := e.(*ast.Ident); ok {
		if o := vc.info.ObjectOf(id); o != nil {
			return o.Type()
		}
	}
	return nil
}

func constVal(t types.Type, v constant.Value, vc *VC) (Val, bool) {
	switch v.Kind() {
	case constant.Bool:
		return mkVal(t, BoolK(constant.BoolVal(v))), true
	case constant.Int:
		bi, ok := new(big.Int).SetString(v.ExactString(), 10)
		if !ok {
			return Val{}, false
		}
		if kindOf(t) == KFloat {
			return mkVal(t, App("flt_const_"+bi.String(), "Flt")), true
		}
		return mkVal(t, IntBig(bi)), true
	case constant.String:
		return vc.stringConst(t, constant.StringVal(v)), true
	case constant.Float:
		if kindOf(t) == KInt {
			if i, ok := constant.Int64Val(constant.ToInt(v)); ok {
				return mkVal(t, IntK(i)), true
			}
		}
		return mkVal(t, App("flt_const_"+sanitize(v.ExactString()), "Flt")), true
	}
	return Val{}, false
}

func sanitize(s string) string {
	out := []byte(s)
	for i, c := range out {
		if !(c >= 'a' && c <= 'z' || c >= 'A' && c <= 'Z' || c >= '0' && c <= '9') {
			out[i] = '_'
		}
	}
	return string(out)
}

// string constants live in the immutable string memory "StrMem" at fixed negative ids.
var strConstIDs = map[string]int64{}

func (vc *VC) stringConst(t types.Type, s string) Val {
	id, ok := strConstIDs[s]
	if !ok {
		id = -int64(len(strConstIDs)) - 2
		strConstIDs[s] = id
	}
	if t == nil || kindOf(t) != KString {
		t = types.Typ[types.String]
	}
	v := mkVal(t, IntK(id), Zero, IntK(int64(len(s))))
	key := "strconst:" + s
	if !vc.globalsInit[key] {
		vc.globalsInit[key] = true
		sm := vc.strMem()
		if len(s) <= 64 {
			for i := 0; i < len(s); i++ {
				vc.assume(Eq(Select(Select(sm, IntK(id)), IntK(int64(i))), IntK(int64(s[i]))))
			}
		}
	}
	return v
}

func (vc *VC) strMem() *Term { return Var("StrMem", SMem) }

func (vc *VC) eval(e ast.Expr, st *State) Val {
	if tv, ok := vc.info.Types[e]; ok && tv.Value != nil {
		if v, ok := constVal(tv.Type, tv.Value, vc); ok {
			return v
		}
	}
	switch x := e.(type) {
	case *ast.ParenExpr:
		return vc.eval(x.X, st)
	case *ast.Ident:
		return vc.evalIdent(x, st)
	case *ast.BasicLit:
		// non-constant literal cannot happen
		return vc.opaque(vc.typeOf(e), "lit")
	case *ast.UnaryExpr:
		return vc.evalUnary(x, st)
	case *ast.BinaryExpr:
		return vc.evalBinary(x, st)
	case *ast.IndexExpr:
		return vc.evalIndex(x, st)
	case *ast.SliceExpr:
		return vc.evalSlice(x, st)
	case *ast.SelectorExpr:
		return vc.evalSelector(x, st)
	case *ast.StarExpr:
		p := vc.eval(x.X, st)
		vc.oblige(st, "nil.deref", x, "", Ne(p.C[0], Zero))
		return vc.loadElem(st, elemTypeOf(p.T), p.C[0], p.C[1])
	case *ast.CallExpr:
		return vc.evalCall(x, st)
	case *ast.CompositeLit:
		return vc.evalCompositeLit(x, st)
	case *ast.FuncLit:
		vc.abstraction("function literal (opaque closure)")
		return vc.opaque(vc.typeOf(e), "closure")
	case *ast.TypeAssertExpr:
		return vc.evalTypeAssert(x, st, false)
	}
	vc.abstraction(fmt.Sprintf("expression %T", e))
	return vc.opaque(vc.typeOf(e), "expr")
}

func (vc *VC) opaque(t types.Type, hint string) Val {
	if t == nil {
		t = types.Typ[types.Int]
	}
	if tup, ok := t.(*types.Tuple); ok {
		var c []*Term
		for i := 0; i < tup.Len(); i++ {
			c = append(c, vc.freshVal(tup.At(i).Type(), hint).C...)
		}
		return Val{T: t, C: c}
	}
	return vc.freshVal(t, hint)
}

func (vc *VC) evalIdent(x *ast.Ident, st *State) Val {
	obj := vc.info.ObjectOf(x)
	switch o := obj.(type) {
	case *types.Var:
		if v, ok := st.vars[o]; ok {
			if vc.addrTaken[o] {
				// stored in memory: v is pointer
				return vc.loadElem(st, o.Type(), v.C[0], v.C[1])
			}
			return v
		}
		if o.Pkg() != nil && o.Parent() == o.Pkg().Scope() {
			return vc.loadGlobal(o, st)
		}
		// variable not in state (declared in a scope we skipped)
		vc.abstraction("unknown variable " + o.Name())
		v := vc.freshVal(o.Type(), o.Name())
		st.vars[o] = v
		return v
	case *types.Nil:
		return zeroVal(vc.typeOf(x))
	case *types.Func:
		return mkVal(o.Type(), App("fn:"+funcFullName(o), SInt))
	case *types.Const:
		if v, ok := constVal(o.Type(), o.Val(), vc); ok {
			return v
		}
	}
	vc.abstraction("identifier " + x.Name)
	return vc.opaque(vc.typeOf(x), x.Name)
}

func globalKey(o *types.Var) string { return "G[" + o.Pkg().Path() + "." + o.Name() + "]" }

func (vc *VC) loadGlobal(o *types.Var, st *State) Val {
	l := layout(o.Type())
	c := make([]*Term, len(l))
	vc.initGlobal(o, st)
	for i, cp := range l {
		c[i] = vc.heap(st, globalKey(o)+cp.Path, cp.Sort)
	}
	v := Val{T: o.Type(), C: c}
	vc.typingVal(v)
	return v
}

func (vc *VC) storeGlobal(o *types.Var, st *State, v Val, lo int) {
	l := layout(o.Type())
	vc.initGlobal(o, st)
	for i, t := range v.C {
		name := globalKey(o) + l[lo+i].Path
		vc.heap(st, name, l[lo+i].Sort)
		st.heaps[name] = t
	}
}

var globalArrIDs = map[string]int64{}

func globalArrID(key string) int64 {
	id, ok := globalArrIDs[key]
	if !ok {
		id = int64(len(globalArrIDs)) + 16
		globalArrIDs[key] = id
	}
	return id
}

// initGlobal adds (once per VC) the known facts about a package-level variable's initial value.
func (vc *VC) initGlobal(o *types.Var, st *State) {
	key := globalKey(o)
	if vc.globalsInit[key] {
		return
	}
	vc.globalsInit[key] = true
	pk := vc.prog.Pkgs[o.Pkg().Path()]
	if pk == nil {
		return
	}
	// find initializer
	var init ast.Expr
	for _, f := range pk.Syntax {
		for _, d := range f.Decls {
			gd, ok := d.(*ast.GenDecl)
			if !ok || gd.Tok != token.VAR {
				continue
			}
			for _, sp := range gd.Specs {
				vs := sp.(*ast.ValueSpec)
				for i, n := range vs.Names {
					if pk.TypesInfo.Defs[n] == o && len(vs.Values) == len(vs.Names) {
						init = vs.Values[i]
					}
				}
			}
		}
	}
	if init == nil {
		return
	}
	l := layout(o.Type())
	entryTerm := func(i int) *Term { return Var(key+l[i].Path+"@0", l[i].Sort) }
	switch kindOf(o.Type()) {
	case KSlice:
		// []byte("lit")
		if ce, ok := init.(*ast.CallExpr); ok && len(ce.Args) == 1 {
			if tv, ok := pk.TypesInfo.Types[ce.Args[0]]; ok && tv.Value != nil && tv.Value.Kind() == constant.String {
				s := constant.StringVal(tv.Value)
				id := IntK(globalArrID(key))
				// A-globals: cap == len for package-level []byte("...") values; initial value assumed unmodified (frame obligations protect it)
				vc.assume(And(Eq(entryTerm(0), id), Eq(entryTerm(1), Zero), Eq(entryTerm(2), IntK(int64(len(s)))), Eq(entryTerm(3), IntK(int64(len(s))))))
				et := elemTypeOf(o.Type())
				h := vc.entryHeapFor(st, heapNameFor(et, layout(et)[0]), heapSort(layout(et)[0]))
				if len(s) <= 64 {
					for i := 0; i < len(s); i++ {
						vc.assume(Eq(Select(Select(h, id), IntK(int64(i))), IntK(int64(s[i]))))
					}
				}
			}
		}
	case KArray:
		id := IntK(globalArrID(key))
		vc.assume(Eq(entryTerm(0), id))
		if cl, ok := init.(*ast.CompositeLit); ok {
			et := elemTypeOf(o.Type())
			if kindOf(et) == KBool || kindOf(et) == KInt {
				cp := layout(et)[0]
				h := vc.entryHeapFor(st, heapNameFor(et, cp), heapSort(cp))
				idx := int64(0)
				n := o.Type().Underlying().(*types.Array).Len()
				known := map[int64]*Term{}
				for _, el := range cl.Elts {
					var ve ast.Expr = el
					if kv, ok := el.(*ast.KeyValueExpr); ok {
						if tv, ok := pk.TypesInfo.Types[kv.Key]; ok && tv.Value != nil {
							idx, _ = constant.Int64Val(constant.ToInt(tv.Value))
						}
						ve = kv.Value
					}
					if tv, ok := pk.TypesInfo.Types[ve]; ok && tv.Value != nil {
						if v, ok := constVal(et, tv.Value, vc); ok {
							known[idx] = v.C[0]
						}
					}
					idx++
				}
				if n <= 256 {
					for i := int64(0); i < n; i++ {
						v, ok := known[i]
						if !ok {
							v = zeroTerm(cp.Sort)
						}
						vc.assume(Eq(Select(Select(h, id), IntK(i)), v))
					}
				}
			}
		}
	case KString:
		if tv, ok := pk.TypesInfo.Types[init]; ok && tv.Value != nil && tv.Value.Kind() == constant.String {
			sv := vc.stringConst(o.Type(), constant.StringVal(tv.Value))
			for i := range sv.C {
				vc.assume(Eq(entryTerm(i), sv.C[i]))
			}
		}
	case KInt, KBool:
		if tv, ok := pk.TypesInfo.Types[init]; ok && tv.Value != nil {
			// NOTE: mutable globals may have been changed since init; only constants-by-convention are given values via contracts
			_ = tv
		}
	}
}

func (vc *VC) entryHeapFor(st *State, name, sortS string) *Term {
	vc.heap(st, name, sortS)
	return vc.entryHeap(name)
}

func (vc *VC) evalUnary(x *ast.UnaryExpr, st *State) Val {
	t := vc.typeOf(x)
	switch x.Op {
	case token.NOT:
		v := vc.eval(x.X, st)
		return mkVal(t, Not(v.C[0]))
	case token.SUB:
		v := vc.eval(x.X, st)
		if kindOf(t) == KFloat {
			return mkVal(t, App("flt_neg", "Flt", v.C[0]))
		}
		r := Neg(v.C[0])
		return vc.arithResult(x, st, r, t)
	case token.ADD:
		return vc.eval(x.X, st)
	case token.XOR:
		v := vc.eval(x.X, st)
		if kindOf(t) == KInt {
			if isUnsigned(t) {
				_, hi := intRangeOf(t)
				return mkVal(t, Sub(IntBig(hi), v.C[0]))
			}
			return mkVal(t, Sub(IntK(-1), v.C[0]))
		}
	case token.AND:
		return vc.evalAddrOf(x, st)
	}
	vc.abstraction("unary " + x.Op.String())
	return vc.opaque(t, "unary")
}

func (vc *VC) arithResult(n ast.Node, st *State, r *Term, t types.Type) Val {
	if kindOf(t) != KInt {
		return mkVal(t, r)
	}
	if isUnsigned(t) {
		return mkVal(t, wrapTo(r, t))
	}
	if !r.IsConst() {
		vc.oblige(st, "overflow", n, "", inRange(r, t))
	}
	return mkVal(t, r)
}

func pow2(k int64) *big.Int { return new(big.Int).Lsh(big.NewInt(1), uint(k)) }

func (vc *VC) evalBinary(x *ast.BinaryExpr, st *State) Val {
	t := vc.typeOf(x)
	switch x.Op {
	case token.LAND, token.LOR:
		l := vc.eval(x.X, st)
		st2 := st.clone()
		if x.Op == token.LAND {
			st2.pc = And(st.pc, l.C[0])
		} else {
			st2.pc = And(st.pc, Not(l.C[0]))
		}
		r := vc.eval(x.Y, st2)
		// merge side effects (heaps) conditionally
		cond := l.C[0]
		if x.Op == token.LOR {
			cond = Not(cond)
		}
		for k, h2 := range st2.heaps {
			h1, ok := st.heaps[k]
			if !ok {
				h1 = vc.implicitHeap(st, k)
			}
			if h1 != h2 {
				st.heaps[k] = Ite(cond, h2, h1)
			} else if !ok {
				st.heaps[k] = h2
			}
		}
		for k, v2 := range st2.vars {
			if v1, ok := st.vars[k]; ok && !sameVal(v1, v2) {
				st.vars[k] = iteVal(cond, v2, v1)
			}
		}
		if x.Op == token.LAND {
			return mkVal(t, And(l.C[0], r.C[0]))
		}
		return mkVal(t, Or(l.C[0], r.C[0]))
	}
	l := vc.eval(x.X, st)
	r := vc.eval(x.Y, st)
	lt := vc.typeOf(x.X)
	switch x.Op {
	case token.EQL, token.NEQ:
		var eq *Term
		switch {
		case kindOf(lt) == KString || kindOf(vc.typeOf(x.Y)) == KString:
			eq = vc.stringEq(l, r, st)
		case kindOf(lt) == KSlice || kindOf(vc.typeOf(x.Y)) == KSlice:
			// comparison with nil only
			if isNilExpr(vc, x.Y) {
				eq = Eq(l.C[0], Zero)
			} else {
				eq = Eq(r.C[0], Zero)
			}
		case kindOf(lt) == KFloat:
			eq = App("flt_eq", SBool, l.C[0], r.C[0])
		case kindOf(lt) == KIface && isNilExpr(vc, x.Y):
			eq = Eq(l.C[0], Zero)
		case kindOf(vc.typeOf(x.Y)) == KIface && isNilExpr(vc, x.X):
			eq = Eq(r.C[0], Zero)
		case kindOf(lt) == KPtr && isNilExpr(vc, x.Y):
			eq = Eq(l.C[0], Zero)
		case kindOf(vc.typeOf(x.Y)) == KPtr && isNilExpr(vc, x.X):
			eq = Eq(r.C[0], Zero)
		case kindOf(lt) == KMap || kindOf(lt) == KFunc:
			if isNilExpr(vc, x.Y) {
				eq = Eq(l.C[0], Zero)
			} else {
				eq = Eq(r.C[0], Zero)
			}
		case len(l.C) != len(r.C):
			// mixed interface / concrete comparison
			vc.abstraction("mixed comparison")
			return vc.opaque(t, "cmp")
		default:
			eq = eqVal(l, r)
		}
		if x.Op == token.NEQ {
			eq = Not(eq)
		}
		return mkVal(t, eq)
	case token.LSS, token.LEQ, token.GTR, token.GEQ:
		if kindOf(lt) == KFloat {
			return mkVal(t, App("flt_"+x.Op.String(), SBool, l.C[0], r.C[0]))
		}
		if kindOf(lt) == KString {
			vc.abstraction("string ordering")
			return vc.opaque(t, "strcmp")
		}
		a, b := l.C[0], r.C[0]
		switch x.Op {
		case token.LSS:
			return mkVal(t, Lt(a, b))
		case token.LEQ:
			return mkVal(t, Le(a, b))
		case token.GTR:
			return mkVal(t, Gt(a, b))
		default:
			return mkVal(t, Ge(a, b))
		}
	}
	if kindOf(t) == KFloat {
		return mkVal(t, App("flt_"+opName(x.Op), "Flt", l.C[0], r.C[0]))
	}
	if kindOf(t) == KString && x.Op == token.ADD {
		return vc.stringConcat(l, r, st, t)
	}
	if kindOf(t) != KInt {
		vc.abstraction("binary op on " + typeKey(t))
		return vc.opaque(t, "binop")
	}
	return vc.intBinop(x, x.Op, l.C[0], r.C[0], t, vc.typeOf(x.Y), st)
}

func opName(op token.Token) string {
	switch op {
	case token.ADD:
		return "add"
	case token.SUB:
		return "sub"
	case token.MUL:
		return "mul"
	case token.QUO:
		return "div"
	}
	return "op" + strconv.Itoa(int(op))
}

func isNilExpr(vc *VC, e ast.Expr) bool {
	if tv, ok := vc.info.Types[e]; ok && tv.IsNil() {
		return true
	}
	if id, ok := e.(*ast.Ident); ok && id.Name == "nil" {
		return true
	}
	return false
}

func (vc *VC) intBinop(n ast.Node, op token.Token, a, b *Term, t types.Type, rt types.Type, st *State) Val {
	switch op {
	case token.ADD:
		return vc.arithResult(n, st, Add(a, b), t)
	case token.SUB:
		return vc.arithResult(n, st, Sub(a, b), t)
	case token.MUL:
		return vc.arithResult(n, st, Mul(a, b), t)
	case token.QUO:
		vc.oblige(st, "div.zero", n, "", Ne(b, Zero))
		if isUnsigned(t) {
			return mkVal(t, EDiv(a, b))
		}
		return vc.arithResult(n, st, TDiv(a, b), t)
	case token.REM:
		vc.oblige(st, "div.zero", n, "", Ne(b, Zero))
		if isUnsigned(t) {
			return mkVal(t, EMod(a, b))
		}
		return mkVal(t, TRem(a, b))
	case token.SHL:
		if k, ok := b.Int64(); ok && k >= 0 && k < 64 {
			return vc.arithResultWrap(n, st, Mul(a, IntBig(pow2(k))), t)
		}
	case token.SHR:
		if k, ok := b.Int64(); ok && k >= 0 && k < 64 {
			return mkVal(t, EDiv(a, IntBig(pow2(k))))
		}
	case token.AND:
		if k, ok := b.Int64(); ok && k >= 0 && isPow2(k+1) {
			return mkVal(t, EMod(a, IntK(k+1)))
		}
		if k, ok := a.Int64(); ok && k >= 0 && isPow2(k+1) {
			return mkVal(t, EMod(b, IntK(k+1)))
		}
		if a.IsConst() && b.IsConst() {
			return mkVal(t, IntBig(new(big.Int).And(a.K, b.K)))
		}
		// x & 2^k  ==  (bit k of x set ? 2^k : 0)
		if r := andPow2(a, b); r != nil {
			return mkVal(t, r)
		}
	case token.OR:
		if a.IsConst() && b.IsConst() {
			return mkVal(t, IntBig(new(big.Int).Or(a.K, b.K)))
		}
		// x | 2^k  ==  x + (bit k of x clear ? 2^k : 0)
		if k, ok := b.Int64(); ok && k > 0 && isPow2(k) {
			bit := EMod(EDiv(a, IntK(k)), IntK(2))
			return mkVal(t, Ite(Eq(bit, Zero), Add(a, IntK(k)), a))
		}
	case token.XOR:
		if a.IsConst() && b.IsConst() {
			return mkVal(t, IntBig(new(big.Int).Xor(a.K, b.K)))
		}
	case token.AND_NOT:
		if a.IsConst() && b.IsConst() {
			return mkVal(t, IntBig(new(big.Int).AndNot(a.K, b.K)))
		}
		if k, ok := b.Int64(); ok && k > 0 && isPow2(k) {
			bit := EMod(EDiv(a, IntK(k)), IntK(2))
			return mkVal(t, Ite(Eq(bit, Zero), a, Sub(a, IntK(k))))
		}
	}
	vc.abstraction("bit operation " + op.String() + " (uninterpreted)")
	r := App("bitop_"+sanitize(op.String()), SInt, a, b)
	vc.assume(inRange(r, t))
	return mkVal(t, r)
}

func (vc *VC) arithResultWrap(n ast.Node, st *State, r *Term, t types.Type) Val {
	// shifts wrap silently for unsigned; for signed we ask for no overflow like other arithmetic
	return vc.arithResult(n, st, r, t)
}

func isPow2(k int64) bool { return k > 0 && k&(k-1) == 0 }

// ---- strings

func (vc *VC) stringEq(a, b Val, st *State) *Term {
	// constant vs anything: expand
	if a.C[0] == b.C[0] && a.C[1] == b.C[1] && a.C[2] == b.C[2] {
		return True
	}
	na, oka := a.C[2].Int64()
	nb, okb := b.C[2].Int64()
	if oka && okb && na != nb {
		return False
	}
	n := int64(-1)
	if oka {
		n = na
	} else if okb {
		n = nb
	}
	sm := vc.strMem()
	if n >= 0 && n <= 32 {
		cs := []*Term{Eq(a.C[2], b.C[2])}
		for i := int64(0); i < n; i++ {
			cs = append(cs, Eq(Select(Select(sm, a.C[0]), Add(a.C[1], IntK(i))), Select(Select(sm, b.C[0]), Add(b.C[1], IntK(i)))))
		}
		return And(cs...)
	}
	// neither side is a short constant: equality of contents is equality of content keys (A-key)
	return Eq(vc.stringKey(a), vc.stringKey(b))
}

func (vc *VC) stringConcat(a, b Val, st *State, t types.Type) Val {
	id := vc.alloc(st)
	n := Add(a.C[2], b.C[2])
	// A-key: the content key of a concatenation is a function of the operands' content keys
	vc.strKeys[id.id] = App("u_cat", SInt, vc.stringKey(a), vc.stringKey(b))
	sm := vc.strMem()
	k := vc.fresh("k", SInt)
	// path-conditioned: the string memory is one global immutable array and the id is this PATH's allocation counter, so two
	// exclusive branches may name the same id - an unconditional fact per branch would make them contradict each other
	vc.assumeAt(st, Forall([]*Term{k}, Implies(And(Le(Zero, k), Lt(k, n)),
		Eq(Select(Select(sm, id), k), Ite(Lt(k, a.C[2]), Select(Select(sm, a.C[0]), Add(a.C[1], k)),
			Select(Select(sm, b.C[0]), Add(b.C[1], Sub(k, a.C[2]))))))))
	return mkVal(t, id, Zero, n)
}

// ---- index / slice / selector

func (vc *VC) evalIndex(x *ast.IndexExpr, st *State) Val {
	bt := vc.typeOf(x.X)
	// generic function instantiation?
	if _, ok := vc.info.Instances[identOf(x.X)]; ok {
		vc.abstraction("generic instantiation")
		return vc.opaque(vc.typeOf(x), "generic")
	}
	switch kindOf(bt) {
	case KSlice:
		b := vc.eval(x.X, st)
		i := vc.eval(x.Index, st).C[0]
		vc.oblige(st, "bounds.idx", x, "", And(Le(Zero, i), Lt(i, b.Len())))
		return vc.loadElem(st, elemTypeOf(bt), b.Arr(), Add(b.Off(), i))
	case KString:
		b := vc.eval(x.X, st)
		i := vc.eval(x.Index, st).C[0]
		vc.oblige(st, "bounds.idx", x, "", And(Le(Zero, i), Lt(i, b.C[2])))
		r := Select(Select(vc.strMem(), b.C[0]), Add(b.C[1], i))
		v := mkVal(types.Typ[types.Uint8], r)
		vc.typingVal(v)
		return v
	case KArray:
		b := vc.eval(x.X, st)
		i := vc.eval(x.Index, st).C[0]
		n := bt.Underlying().(*types.Array).Len()
		vc.oblige(st, "bounds.idx", x, "", And(Le(Zero, i), Lt(i, IntK(n))))
		return vc.loadElem(st, elemTypeOf(bt), b.C[0], i)
	case KPtr:
		// pointer to array
		if at, ok := elemTypeOf(bt).Underlying().(*types.Array); ok {
			p := vc.eval(x.X, st)
			vc.oblige(st, "nil.deref", x, "", Ne(p.C[0], Zero))
			arr := vc.loadElem(st, elemTypeOf(bt), p.C[0], p.C[1])
			i := vc.eval(x.Index, st).C[0]
			vc.oblige(st, "bounds.idx", x, "", And(Le(Zero, i), Lt(i, IntK(at.Len()))))
			return vc.loadElem(st, at.Elem(), arr.C[0], i)
		}
	case KMap:
		m := vc.eval(x.X, st)
		k := vc.eval(x.Index, st)
		v, _ := vc.mapLoad(st, bt, m, k)
		return v
	}
	vc.abstraction("index on " + typeKey(bt))
	return vc.opaque(vc.typeOf(x), "index")
}

func identOf(e ast.Expr) *ast.Ident {
	switch x := e.(type) {
	case *ast.Ident:
		return x
	case *ast.SelectorExpr:
		return x.Sel
	}
	return nil
}

func (vc *VC) evalSlice(x *ast.SliceExpr, st *State) Val {
	bt := vc.typeOf(x.X)
	t := vc.typeOf(x)
	b := vc.eval(x.X, st)
	var arr, off, ln, cp *Term
	isStr := false
	switch kindOf(bt) {
	case KSlice:
		arr, off, ln, cp = b.Arr(), b.Off(), b.Len(), b.Cap()
	case KString:
		arr, off, ln, cp = b.C[0], b.C[1], b.C[2], b.C[2]
		isStr = true
	case KArray:
		n := IntK(bt.Underlying().(*types.Array).Len())
		arr, off, ln, cp = b.C[0], Zero, n, n
	case KPtr:
		if at, ok := elemTypeOf(bt).Underlying().(*types.Array); ok {
			vc.oblige(st, "nil.deref", x, "", Ne(b.C[0], Zero))
			a := vc.loadElem(st, elemTypeOf(bt), b.C[0], b.C[1])
			n := IntK(at.Len())
			arr, off, ln, cp = a.C[0], Zero, n, n
			break
		}
		fallthrough
	default:
		vc.abstraction("slice of " + typeKey(bt))
		return vc.opaque(t, "slice")
	}
	lo := Zero
	if x.Low != nil {
		lo = vc.eval(x.Low, st).C[0]
	}
	hi := ln
	if x.High != nil {
		hi = vc.eval(x.High, st).C[0]
	}
	mx := cp
	if x.Max != nil {
		mx = vc.eval(x.Max, st).C[0]
	}
	limit := cp
	if isStr {
		limit = ln
	}
	if x.Max != nil {
		vc.oblige(st, "bounds.slice", x, "", And(Le(Zero, lo), Le(lo, hi), Le(hi, mx), Le(mx, limit)))
	} else {
		vc.oblige(st, "bounds.slice", x, "", And(Le(Zero, lo), Le(lo, hi), Le(hi, limit)))
	}
	if isStr {
		return mkVal(t, arr, Add(off, lo), Sub(hi, lo))
	}
	return mkVal(t, arr, Add(off, lo), Sub(hi, lo), Sub(mx, lo))
}

func (vc *VC) evalSelector(x *ast.SelectorExpr, st *State) Val {
	// package-qualified?
	if id, ok := x.X.(*ast.Ident); ok {
		if _, isPkg := vc.info.ObjectOf(id).(*types.PkgName); isPkg {
			return vc.evalIdent(x.Sel, st)
		}
	}
	sel := vc.info.Selections[x]
	if sel == nil {
		vc.abstraction("selector without selection")
		return vc.opaque(vc.typeOf(x), "sel")
	}
	switch sel.Kind() {
	case types.FieldVal:
		loc, ok := vc.lvalue(x, st, true)
		if ok {
			return vc.loadLoc(loc, st)
		}
		// rvalue struct (e.g. call result)
		base := vc.eval(x.X, st)
		return vc.fieldPath(base, sel, x, st)
	case types.MethodVal:
		recv := vc.eval(x.X, st)
		fn := sel.Obj().(*types.Func)
		// follow the embedded-field path to the actual receiver
		if idx := sel.Index(); len(idx) > 1 {
			for _, i := range idx[:len(idx)-1] {
				if kindOf(recv.T) == KPtr {
					recv = vc.loadElem(st, elemTypeOf(recv.T), recv.C[0], recv.C[1])
				}
				stt := recv.T.Underlying().(*types.Struct)
				lo, hi, ft, _ := fieldRange(recv.T, stt.Field(i).Name())
				recv = Val{T: ft, C: recv.C[lo:hi]}
			}
		}
		args := append([]*Term{}, recv.C...)
		return mkVal(vc.typeOf(x), App("bound:"+funcFullName(fn), SInt, args...))
	}
	vc.abstraction("method expression")
	return vc.opaque(vc.typeOf(x), "sel")
}

// fieldPath follows sel.Index() through value v (which may involve implicit pointer derefs).
func (vc *VC) fieldPath(v Val, sel *types.Selection, n ast.Node, st *State) Val {
	cur := v
	for _, idx := range sel.Index() {
		if kindOf(cur.T) == KPtr {
			vc.oblige(st, "nil.deref", n, "", Ne(cur.C[0], Zero))
			cur = vc.loadElem(st, elemTypeOf(cur.T), cur.C[0], cur.C[1])
		}
		stt := cur.T.Underlying().(*types.Struct)
		f := stt.Field(idx)
		lo, hi, ft, _ := fieldRange(cur.T, f.Name())
		cur = Val{T: ft, C: cur.C[lo:hi]}
	}
	return cur
}

// ---- locations (lvalues)

type Loc struct {
	kind  int // 0 var, 1 mem, 2 global, 3 map
	obj   types.Object
	elem  types.Type // mem: element type of the memory region
	arr   *Term
	idx   *Term
	lo    int // component offset within obj/elem
	t     types.Type
	mapT  types.Type
	mapV  Val
	mapK  Val
}

func (vc *VC) lvalue(e ast.Expr, st *State, quiet bool) (Loc, bool) {
	switch x := e.(type) {
	case *ast.ParenExpr:
		return vc.lvalue(x.X, st, quiet)
	case *ast.Ident:
		obj := vc.info.ObjectOf(x)
		if v, ok := obj.(*types.Var); ok {
			if pv, ok := st.vars[v]; ok {
				if vc.addrTaken[v] {
					return Loc{kind: 1, elem: v.Type(), arr: pv.C[0], idx: pv.C[1], t: v.Type()}, true
				}
				return Loc{kind: 0, obj: v, t: v.Type()}, true
			}
			if v.Pkg() != nil && v.Parent() == v.Pkg().Scope() {
				return Loc{kind: 2, obj: v, t: v.Type()}, true
			}
			if x.Name == "_" {
				return Loc{}, false
			}
			// declared later / unknown: create
			st.vars[v] = zeroVal(v.Type())
			return Loc{kind: 0, obj: v, t: v.Type()}, true
		}
	case *ast.IndexExpr:
		bt := vc.typeOf(x.X)
		switch kindOf(bt) {
		case KSlice:
			b := vc.eval(x.X, st)
			i := vc.eval(x.Index, st).C[0]
			vc.oblige(st, "bounds.idx", x, "", And(Le(Zero, i), Lt(i, b.Len())))
			et := elemTypeOf(bt)
			return Loc{kind: 1, elem: et, arr: b.Arr(), idx: Add(b.Off(), i), t: et}, true
		case KArray:
			b := vc.eval(x.X, st)
			i := vc.eval(x.Index, st).C[0]
			n := bt.Underlying().(*types.Array).Len()
			vc.oblige(st, "bounds.idx", x, "", And(Le(Zero, i), Lt(i, IntK(n))))
			et := elemTypeOf(bt)
			return Loc{kind: 1, elem: et, arr: b.C[0], idx: i, t: et}, true
		case KMap:
			m := vc.eval(x.X, st)
			k := vc.eval(x.Index, st)
			return Loc{kind: 3, mapT: bt, mapV: m, mapK: k, t: elemTypeOf(bt)}, true
		}
	case *ast.StarExpr:
		p := vc.eval(x.X, st)
		vc.oblige(st, "nil.deref", x, "", Ne(p.C[0], Zero))
		et := elemTypeOf(p.T)
		return Loc{kind: 1, elem: et, arr: p.C[0], idx: p.C[1], t: et}, true
	case *ast.SelectorExpr:
		if id, ok := x.X.(*ast.Ident); ok {
			if _, isPkg := vc.info.ObjectOf(id).(*types.PkgName); isPkg {
				return vc.lvalue(x.Sel, st, quiet)
			}
		}
		sel := vc.info.Selections[x]
		if sel == nil || sel.Kind() != types.FieldVal {
			return Loc{}, false
		}
		// base location
		var base Loc
		bt := vc.typeOf(x.X)
		if kindOf(bt) == KPtr {
			p := vc.eval(x.X, st)
			vc.oblige(st, "nil.deref", x, "", Ne(p.C[0], Zero))
			et := elemTypeOf(bt)
			base = Loc{kind: 1, elem: et, arr: p.C[0], idx: p.C[1], t: et}
		} else {
			var ok bool
			base, ok = vc.lvalue(x.X, st, true)
			if !ok {
				return Loc{}, false
			}
		}
		cur := base
		for _, idx := range sel.Index() {
			if kindOf(cur.t) == KPtr {
				pv := vc.loadLoc(cur, st)
				vc.oblige(st, "nil.deref", x, "", Ne(pv.C[0], Zero))
				et := elemTypeOf(cur.t)
				cur = Loc{kind: 1, elem: et, arr: pv.C[0], idx: pv.C[1], t: et}
			}
			stt, ok := cur.t.Underlying().(*types.Struct)
			if !ok {
				return Loc{}, false
			}
			f := stt.Field(idx)
			lo, _, ft, _ := fieldRange(cur.t, f.Name())
			cur.lo += lo
			cur.t = ft
		}
		return cur, true
	}
	return Loc{}, false
}

func (vc *VC) loadLoc(l Loc, st *State) Val {
	n := len(layout(l.t))
	switch l.kind {
	case 0:
		v := st.vars[l.obj]
		return Val{T: l.t, C: v.C[l.lo : l.lo+n]}
	case 1:
		return vc.loadComps(st, l.elem, l.arr, l.idx, l.lo, l.lo+n, l.t)
	case 2:
		g := vc.loadGlobal(l.obj.(*types.Var), st)
		return Val{T: l.t, C: g.C[l.lo : l.lo+n]}
	case 3:
		v, _ := vc.mapLoad(st, l.mapT, l.mapV, l.mapK)
		return v
	}
	panic("loadLoc")
}

func (vc *VC) storeLoc(l Loc, st *State, v Val, n ast.Node) {
	if len(v.C) != len(layout(l.t)) {
		v = vc.convertTo(v, l.t, st, n)
	}
	switch l.kind {
	case 0:
		old := st.vars[l.obj]
		nc := append([]*Term{}, old.C...)
		copy(nc[l.lo:], v.C)
		st.vars[l.obj] = Val{T: old.T, C: nc}
	case 1:
		for _, po := range vc.preserved {
			if typeKey(po.elem) == typeKey(l.elem) {
				vc.oblige(st, "frame.store", n, fmt.Sprintf("%s never writes *%s: %s", vc.unit, po.name, nodeText(vc.prog.Fset, n)), Not(And(Eq(l.arr, po.arr), Eq(l.idx, po.idx))))
			}
		}
		vc.storeComps(st, l.elem, l.arr, l.idx, l.lo, v)
	case 2:
		vc.storeGlobal(l.obj.(*types.Var), st, v, l.lo)
	case 3:
		vc.mapStore(st, l.mapT, l.mapV, l.mapK, v, n)
	}
}

func (vc *VC) evalAddrOf(x *ast.UnaryExpr, st *State) Val {
	t := vc.typeOf(x)
	// &CompositeLit
	if cl, ok := unparen(x.X).(*ast.CompositeLit); ok {
		v := vc.evalCompositeLit(cl, st)
		arr := vc.alloc(st)
		vc.storeComps(st, v.T, arr, Zero, 0, v)
		return mkVal(t, arr, Zero)
	}
	loc, ok := vc.lvalue(x.X, st, false)
	if ok && loc.kind == 1 && loc.lo == 0 && len(layout(loc.t)) == len(layout(loc.elem)) {
		return mkVal(t, loc.arr, loc.idx)
	}
	vc.abstraction("address-of unsupported location")
	return vc.opaque(t, "addr")
}

func unparen(e ast.Expr) ast.Expr {
	for {
		p, ok := e.(*ast.ParenExpr)
		if !ok {
			return e
		}
		e = p.X
	}
}

func (vc *VC) evalCompositeLit(x *ast.CompositeLit, st *State) Val {
	t := vc.typeOf(x)
	switch kindOf(t) {
	case KStruct:
		v := zeroVal(t)
		c := append([]*Term{}, v.C...)
		stt := t.Underlying().(*types.Struct)
		for i, el := range x.Elts {
			var fname string
			var ve ast.Expr
			if kv, ok := el.(*ast.KeyValueExpr); ok {
				fname = kv.Key.(*ast.Ident).Name
				ve = kv.Value
			} else {
				fname = stt.Field(i).Name()
				ve = el
			}
			lo, hi, ft, ok := fieldRange(t, fname)
			if !ok {
				continue
			}
			fv := vc.convertTo(vc.eval(ve, st), ft, st, ve)
			if len(fv.C) == hi-lo {
				copy(c[lo:hi], fv.C)
			}
		}
		return Val{T: t, C: c}
	case KSlice:
		et := elemTypeOf(t)
		arr := vc.alloc(st)
		n := int64(0)
		for _, el := range x.Elts {
			ve := el
			if kv, ok := el.(*ast.KeyValueExpr); ok {
				if tv, ok := vc.info.Types[kv.Key]; ok && tv.Value != nil {
					n, _ = constant.Int64Val(constant.ToInt(tv.Value))
				}
				ve = kv.Value
			}
			var ev Val
			if cl, ok := ve.(*ast.CompositeLit); ok && cl.Type == nil {
				ev = vc.evalCompositeLitTyped(cl, et, st)
			} else {
				ev = vc.convertTo(vc.eval(ve, st), et, st, ve)
			}
			vc.storeComps(st, et, arr, IntK(n), 0, ev)
			n++
		}
		return mkVal(t, arr, Zero, IntK(n), IntK(n))
	case KMap:
		m := vc.alloc(st)
		mv := mkVal(t, m)
		vc.mapInitEmpty(st, t, mv)
		for _, el := range x.Elts {
			if kv, ok := el.(*ast.KeyValueExpr); ok {
				k := vc.eval(kv.Key, st)
				v := vc.eval(kv.Value, st)
				vc.mapStore(st, t, mv, k, v, el)
			}
		}
		return mv
	}
	vc.abstraction("composite literal of " + typeKey(t))
	return vc.opaque(t, "complit")
}

func (vc *VC) evalCompositeLitTyped(x *ast.CompositeLit, t types.Type, st *State) Val {
	if tv, ok := vc.info.Types[x]; ok && tv.Type != nil {
		return vc.evalCompositeLit(x, st)
	}
	return vc.opaque(t, "complit")
}

// ---- conversions

func (vc *VC) convertTo(v Val, t types.Type, st *State, n ast.Node) Val {
	if v.T != nil && types.Identical(v.T, t) {
		return Val{T: t, C: v.C}
	}
	if b, ok := v.T.(*types.Basic); ok && b.Kind() == types.UntypedNil {
		return zeroVal(t)
	}
	from, to := kindOf(v.T), kindOf(t)
	switch {
	case from == to && len(v.C) == len(layout(t)) && to != KIface:
		if to == KInt {
			return mkVal(t, vc.wrapConv(v.C[0], t))
		}
		return Val{T: t, C: v.C}
	case to == KIface && from == KIface:
		return Val{T: t, C: v.C}
	case to == KIface:
		return vc.toIface(v, t, st)
	case to == KInt && from == KInt:
		return mkVal(t, vc.wrapConv(v.C[0], t))
	case to == KFloat && from == KInt:
		return mkVal(t, App("flt_of_int", "Flt", v.C[0]))
	case to == KInt && from == KFloat:
		r := App("int_of_flt", SInt, v.C[0])
		vc.assume(inRange(r, t))
		return mkVal(t, r)
	case to == KString && from == KSlice:
		// string(b): fresh immutable copy
		id := vc.alloc(st)
		sm := vc.strMem()
		et := elemTypeOf(v.T)
		h := vc.heap(st, heapNameFor(et, layout(et)[0]), heapSort(layout(et)[0]))
		k := vc.fresh("k", SInt)
		vc.assumeAt(st, Forall([]*Term{k}, Implies(And(Le(Zero, k), Lt(k, v.Len())),
			Eq(Select(Select(sm, id), k), Select(Select(h, v.Arr()), Add(v.Off(), k))))))
		if o, ok := vc.origins[v.C[0].id]; ok && v.C[1] == Zero {
			vc.origins[id.id] = o
		} else {
			vc.origins[id.id] = originRec{row: Select(h, v.Arr()), off: v.Off(), len: v.Len()}
		}
		return mkVal(t, id, Zero, v.Len())
	case to == KSlice && from == KString:
		// []byte(s): fresh array
		id := vc.alloc(st)
		et := elemTypeOf(t)
		cp := layout(et)[0]
		name := heapNameFor(et, cp)
		h := vc.heap(st, name, heapSort(cp))
		a := vc.fresh("arr", SArr)
		k := vc.fresh("k", SInt)
		vc.assume(Forall([]*Term{k}, Implies(And(Le(Zero, k), Lt(k, v.C[2])),
			Eq(Select(a, k), Select(Select(vc.strMem(), v.C[0]), Add(v.C[1], k))))))
		st.heaps[name] = Store(h, id, a)
		if o, ok := vc.origins[v.C[0].id]; ok && v.C[1] == Zero {
			vc.origins[id.id] = o
		} else {
			vc.origins[id.id] = originRec{row: Select(vc.strMem(), v.C[0]), off: v.C[1], len: v.C[2]}
		}
		return mkVal(t, id, Zero, v.C[2], v.C[2])
	case to == KString && from == KInt:
		vc.abstraction("string(rune)")
		return vc.opaque(t, "str")
	}
	if len(v.C) == len(layout(t)) {
		return Val{T: t, C: v.C}
	}
	vc.abstraction(fmt.Sprintf("conversion %s -> %s", typeKey(v.T), typeKey(t)))
	return vc.opaque(t, "conv")
}

func (vc *VC) wrapConv(x *Term, t types.Type) *Term {
	return wrapTo(x, t)
}

var dynTypeIDs = map[string]int64{}

func dynTypeID(t types.Type) int64 {
	k := typeKey(t)
	id, ok := dynTypeIDs[k]
	if !ok {
		id = int64(len(dynTypeIDs)) + 1
		dynTypeIDs[k] = id
	}
	return id
}

// toIface boxes a concrete value: pointers keep their identity in ival via an injective pairing function.
func (vc *VC) toIface(v Val, t types.Type, st *State) Val {
	if v.T == nil || len(v.C) == 0 {
		return zeroVal(t)
	}
	dyn := IntK(dynTypeID(v.T))
	var ival *Term
	switch kindOf(v.T) {
	case KPtr:
		ival = App("box_ptr", SInt, v.C[0], v.C[1])
		// nil pointer in interface is non-nil interface: dyn != 0 regardless
	case KInt, KFunc, KMap, KChan:
		ival = v.C[0]
	default:
		args := v.C
		allInt := true
		for _, a := range args {
			if a.Sort != SInt {
				allInt = false
			}
		}
		if allInt {
			ival = App(fmt.Sprintf("box_%d", len(args)), SInt, args...)
		} else {
			ival = vc.fresh("box", SInt)
		}
	}
	return mkVal(t, dyn, ival)
}

func (vc *VC) evalTypeAssert(x *ast.TypeAssertExpr, st *State, commaOk bool) Val {
	v := vc.eval(x.X, st)
	t := vc.typeOf(x)
	if tup, ok := t.(*types.Tuple); ok {
		t = tup.At(0).Type()
	}
	if x.Type == nil {
		return v
	}
	var okT *Term
	var res Val
	if kindOf(t) == KIface {
		okT = vc.fresh("implements", SBool)
		vc.assume(Implies(okT, Ne(v.C[0], Zero)))
		res = Val{T: t, C: v.C}
	} else {
		okT = Eq(v.C[0], IntK(dynTypeID(t)))
		switch kindOf(t) {
		case KPtr:
			res = mkVal(t, App("unbox_ptr_arr", SInt, v.C[1]), App("unbox_ptr_idx", SInt, v.C[1]))
			vc.typingVal(res)
		case KInt:
			res = mkVal(t, v.C[1])
		default:
			res = vc.freshVal(t, "unbox")
		}
	}
	if !commaOk {
		vc.oblige(st, "typeassert", x, "", okT)
		return res
	}
	res2 := iteVal(okT, res, zeroVal(t))
	tt := types.NewTuple(types.NewVar(0, nil, "", t), types.NewVar(0, nil, "", types.Typ[types.Bool]))
	return Val{T: tt, C: append(append([]*Term{}, res2.C...), okT)}
}

// andPow2: x & 2^k as arithmetic (either operand may be the constant); nil when neither is a positive power of two.
func andPow2(a, b *Term) *Term {
	if k, ok := b.Int64(); ok && k > 0 && isPow2(k) {
		return Ite(Eq(EMod(EDiv(a, IntK(k)), IntK(2)), Zero), Zero, IntK(k))
	}
	if k, ok := a.Int64(); ok && k > 0 && isPow2(k) {
		return Ite(Eq(EMod(EDiv(b, IntK(k)), IntK(2)), Zero), Zero, IntK(k))
	}
	return nil
}
