package main

import (
	"encoding/json"
	"os"
	"path/filepath"
	"fmt"
	"sort"
	"strings"
	"time"
)

// sweepFuncs lists the functions of /repo's own packages (excluding contract/spec files and tests).
func sweepFuncs(prog *Program, pkgs []string) []string {
	var out []string
	for full, fi := range prog.Funcs {
		if !strings.HasPrefix(full, modPath) {
			continue
		}
		ok := false
		for _, p := range pkgs {
			if fi.Pkg.PkgPath == p {
				ok = true
			}
		}
		if !ok {
			continue
		}
		fn := prog.Fset.Position(fi.Decl.Pos()).Filename
		if strings.HasSuffix(fn, "_verif.go") || strings.HasSuffix(fn, "_test.go") {
			continue
		}
		out = append(out, full)
	}
	sort.Strings(out)
	return out
}

type sweepResult struct {
	Full     string
	Obls     []*Oblig
	Skipped  string
	GenTime  float64
}

func runSweep(prog *Program, fulls []string) []*sweepResult {
	var res []*sweepResult
	var all []*Oblig
	for _, full := range fulls {
		rep, err := verifyFunc(prog, full)
		if err != nil {
			continue
		}
		sr := &sweepResult{Full: full, GenTime: rep.GenTime}
		if rep.OutOfSubset != "" {
			sr.Skipped = rep.OutOfSubset
			res = append(res, sr)
			continue
		}
		for _, o := range rep.Obls {
			switch o.Kind {
			case "bounds.idx", "bounds.slice", "nil.deref", "nil.mapwrite", "div.zero", "typeassert", "bounds.make", "panic", "variant.auto":
				sr.Obls = append(sr.Obls, o)
				all = append(all, o)
			}
		}
		res = append(res, sr)
	}
	discharge(all, 16)
	return res
}

func cmdSweep(args []string) {
	prog, err := LoadProgram(repoDir, []string{"./..."})
	if err != nil {
		fmt.Println("load error:", err)
		return
	}
	pkgs := []string{modPath, modPath + "/css", modPath + "/html", modPath + "/js", modPath + "/json", modPath + "/svg", modPath + "/xml", modPath + "/cmd/minify"}
	if len(args) > 0 {
		pkgs = nil
		for _, a := range args {
			if a == "." {
				pkgs = append(pkgs, modPath)
			} else {
				pkgs = append(pkgs, modPath+"/"+a)
			}
		}
	}
	quickSec, totalSec = 2, 2
	t0 := time.Now()
	fulls := sweepFuncs(prog, pkgs)
	res := runSweep(prog, fulls)
	tot, ok, skipped := 0, 0, 0
	for _, r := range res {
		if r.Skipped != "" {
			skipped++
			fmt.Printf("SKIP %s: %s\n", shortName(r.Full), clipS(strings.SplitN(r.Skipped, "\n", 2)[0], 200))
			continue
		}
		n := 0
		for _, o := range r.Obls {
			if o.OK() {
				n++
			}
		}
		tot += len(r.Obls)
		ok += n
		fmt.Printf("%-60s %4d/%4d  gen %.2fs\n", shortName(r.Full), n, len(r.Obls), r.GenTime)
	}
	fmt.Printf("functions %d (skipped %d), safety obligations %d, discharged %d, %.1fs\n", len(res), skipped, tot, ok, time.Since(t0).Seconds())
}

var sweepPkgs = []string{modPath, modPath + "/css", modPath + "/html", modPath + "/js", modPath + "/json", modPath + "/svg", modPath + "/xml", modPath + "/cmd/minify"}

func init() {
	customCheckers["sweep"] = sweepChecker
	customCheckers["partial"] = partialChecker
}

// sweepChecker: zero-annotation no-panic sweep. The registry lists the safety obligations (index, slice, nil, division,
// type assertion, make) that discharge on the unchanged tree with the built-in invariants only; each must keep discharging.
func sweepChecker(cr *checkRun) {
	fulls := sweepFuncs(cr.prog, sweepPkgs)
	own := map[string]bool{}
	for _, u := range cr.prop.Units {
		own[u] = true
	}
	var sel []string
	for _, full := range fulls {
		if own[full] {
			continue // verified as a unit of this property under full contract
		}
		// functions under (full or partial) contract for other properties are swept too, WITH their contracts and
		// invariants: "no panic" claims their discharged safety obligations here
		sel = append(sel, full)
	}
	for full, fi := range cr.prog.Funcs {
		if fi.Name != "" && !own[full] {
			sel = append(sel, full) // goroutine bodies
		}
	}
	sort.Strings(sel)
	registryCheck(cr, cr.prop.ID+"-sweep", "sweep", sel, true)
}

// partialChecker: functions under PARTIAL contract (invariants supplied, not every obligation provable): every
// obligation is generated; the ones that discharge on the unchanged tree are registered and claimed.
func partialChecker(cr *checkRun) {
	registryCheck(cr, cr.prop.ID+"-partial", "partial", cr.prop.Partial, false)
}

func registryCheck(cr *checkRun, regName, label string, fulls []string, safetyOnly bool) {
	reg := map[string]bool{}
	if b, err := os.ReadFile(filepath.Join(verifDir, "registry", regName+".json")); err == nil {
		var r struct {
			Obligations []string `json:"obligations"`
		}
		json.Unmarshal(b, &r)
		for _, o := range r.Obligations {
			reg[o] = true
		}
	}
	// a postcondition obligation is named "<unit>#post@<clause>|ret<N>:<return statement text>"; it is claimed under
	// the name without the statement text as well, so that editing the returned expression does not un-claim the clause
	for n := range reg {
		if k := stableOblKey(n); k != n {
			reg[k] = true
		}
	}
	writing := os.Getenv("GOVC_WRITE_REGISTRY") != ""
	var all []*Oblig
	nfun, skipped, generated := 0, 0, 0
	var skippedNames []string
	for _, full := range fulls {
		rep, err := verifyFunc(cr.prog, full)
		if err != nil {
			if !safetyOnly {
				cr.viol = append(cr.viol, violation{Obligation: full + "#exists", Kind: "missing", Unit: full, Detail: err.Error()})
			}
			continue
		}
		nfun++
		if rep.OutOfSubset != "" {
			skipped++
			skippedNames = append(skippedNames, shortName(full)+": "+clipS(strings.SplitN(rep.OutOfSubset, "\n", 2)[0], 80))
			if !safetyOnly {
				cr.viol = append(cr.viol, violation{Obligation: shortName(full) + "#subset", Kind: "subset", Unit: full, Detail: "function left the verifiable subset: " + clipS(rep.OutOfSubset, 300)})
			}
			continue
		}
		for _, o := range rep.Obls {
			if o.Cover {
				isRet := strings.Contains(o.Name, "#cover@ret")
				if (!safetyOnly && (!o.Soft || isRet)) || (safetyOnly && isRet && (writing || cr.tier == "thorough")) {
					all = append(all, o) // return-reachability covers are soft; they are solved so that a canary can be read against them
				}
				continue
			}
			if o.Kind == "canary" {
				if !safetyOnly || writing || cr.tier == "thorough" {
					all = append(all, o)
				}
				continue
			}
			claimable := true
			if safetyOnly {
				switch o.Kind {
				case "bounds.idx", "bounds.slice", "nil.deref", "nil.mapwrite", "div.zero", "typeassert", "bounds.make", "panic", "variant.auto":
				default:
					claimable = false
				}
			}
			if !claimable {
				continue
			}
			if !safetyOnly && cr.foreignFinding(o.Name) {
				continue
			}
			generated++
			if writing || cr.tier == "thorough" || reg[o.Name] || reg[stableOblKey(o.Name)] || o.Kind == "frame.store" || (!safetyOnly && isClauseKind(o.Kind)) {
				if !safetyOnly && cr.knownFindingFor(o.Name) != nil {
					o.Budget = 1
				} else if !safetyOnly && writing && isClauseKind(o.Kind) {
					o.Full = true // a contract clause is claimed if the full race decides it, not only the 2 s first attempt
				}
				all = append(all, o)
			}
		}
	}
	saveQ, saveT := quickSec, totalSec
	if writing {
		quickSec, totalSec = 2, 2
	} else {
		quickSec, totalSec = 5, 15
	}
	discharge(all, 16)
	quickSec, totalSec = saveQ, saveT
	ok := 0
	var names []string
	seen := map[string]bool{}
	for _, o := range all {
		if o.Cover {
			if !o.OK() && o.Res.Status == "unsat" {
				cr.viol = append(cr.viol, violation{Obligation: o.Name, Kind: "vacuity", Detail: "cover not satisfiable (" + o.Res.Status + ")"})
			} else if !o.OK() {
				cr.undecided = append(cr.undecided, "vacuity guard undecided ("+o.Res.Status+"): "+o.Name)
			}
			continue
		}
		if o.Kind == "canary" {
			if !o.OK() && !deadReturn(all, o) {
				cr.viol = append(cr.viol, violation{Obligation: o.Name, Kind: "vacuity", Detail: "`false` is provable at this return: the assumptions on this path contradict each other (every obligation after the contradiction is proved for free)"})
			}
			continue
		}
		seen[o.Name] = true
		seen[stableOblKey(o.Name)] = true
		claimed := reg[o.Name] || reg[stableOblKey(o.Name)]
		if !o.OK() && !safetyOnly {
			if kf := cr.knownFindingFor(o.Name); kf != nil {
				cr.knownHit[kf.ID] = o.Name // open known finding: the obligation still fails (not discharged)
				continue
			}
		}
		if o.OK() {
			ok++
			names = append(names, o.Name)
			if claimed {
				cr.nObl++
				cr.nOK++
				cr.byBackend[o.Res.Solver]++
				cr.solverTime += o.Res.Time
				slowLog(cr.prop.ID, o.Name, o.Res.Solver, o.Res.Time)
				if len(cr.samples) < 6 && label == "partial" && o.Res.Solver != "simplifier" && o.Kind == "overflow" {
					cr.samples = append(cr.samples, map[string]string{"obligation": o.Name, "kind": o.Kind, "goal": clipS(o.Goal.String(), 300), "status": "unsat (discharged by " + o.Res.Solver + ")"})
				}
			}
			continue
		}
		if claimed || o.Kind == "frame.store" {
			// frame.store obligations (never write the caller's option struct) are always part of the claim
			cr.nObl++
			cr.handleSweepFailure(o)
		} else if !safetyOnly && !writing && isClauseKind(o.Kind) && o.Res.Status == "sat" {
			// a contract clause (postcondition, site assertion, invariant, step) that is not in the registry - typically
			// because the statement it is attached to was edited - and that the solver REFUTES is a violation; one the
			// solver merely fails to decide stays undecided
			cr.nObl++
			cr.handleSweepFailure(o)
		} else if !safetyOnly && writing && isClauseKind(o.Kind) {
			fmt.Fprintf(os.Stderr, "registry: contract clause NOT discharged while writing (stays unclaimed): %s (%s)\n", o.Name, o.Res.Status)
		} else if !safetyOnly && !writing && isClauseKind(o.Kind) {
			cr.undecided = append(cr.undecided, o.Name+" ("+o.Res.Status+"; contract clause not in the claimed registry)")
		}
	}
	missing := 0
	for n := range reg {
		if !seen[n] {
			missing++
		}
	}
	if writing {
		sort.Strings(names)
		b, _ := json.MarshalIndent(map[string]interface{}{"property": cr.prop.ID, "what": label + ": obligations discharged on the unchanged tree (the claimed set)", "obligations": names}, "", " ")
		os.MkdirAll(filepath.Join(verifDir, "registry"), 0o755)
		os.WriteFile(filepath.Join(verifDir, "registry", regName+".json"), b, 0o644)
	}
	cr.custom = append(cr.custom, map[string]interface{}{
		"checker": label, "functions": nfun, "function_names": shortNames(fulls, 12), "functions_out_of_subset": skippedNames, "obligations_generated": generated,
		"registered_claimed": len(reg), "checked_this_run": len(all), "discharged_this_run": ok,
		"registered_but_no_longer_generated": missing,
		"note": "only registered obligations are claimed; the others (generated minus registered) are undecided and are NOT part of the claim",
	})
	if len(reg) > 0 && len(all) == 0 {
		cr.viol = append(cr.viol, violation{Obligation: label + "#count", Kind: "vacuity", Detail: "no registered obligation could be generated"})
	}
}

func shortNames(fulls []string, max int) []string {
	var out []string
	for i, f := range fulls {
		if i >= max {
			out = append(out, fmt.Sprintf("... and %d more", len(fulls)-max))
			break
		}
		out = append(out, shortName(f))
	}
	return out
}

func (cr *checkRun) handleSweepFailure(o *Oblig) {
	if kf := cr.knownFindingFor(o.Name); kf != nil {
		cr.nObl--
		cr.knownHit[kf.ID] = o.Name
		return
	}
	full := ""
	for f := range cr.prog.Funcs {
		if shortName(f) == o.Unit {
			full = f
		}
	}
	v := violation{Obligation: o.Name, Kind: o.Kind, Unit: full, Detail: fmt.Sprintf("%s (%s)", o.Res.Status, strings.Join(o.Res.Tried, " "))}
	if full != "" {
		rp := replayObligation(cr, full, o)
		v.Replay, v.Reproduced, v.Input = rp.path, rp.reproduced, rp.input
	}
	cr.viol = append(cr.viol, v)
}

func isClauseKind(k string) bool {
	switch k {
	case "post", "assert", "step", "inv.init", "inv.keep":
		return true
	}
	return false
}

// stableOblKey drops the return-statement text from a postcondition obligation name.
func stableOblKey(n string) string {
	i := strings.Index(n, "#post@")
	if i < 0 {
		return n
	}
	j := strings.LastIndex(n, "|ret")
	if j < i {
		return n
	}
	if k := strings.Index(n[j:], ":"); k >= 0 {
		return n[:j+k]
	}
	return n
}

// slowLog: with GOVC_SLOWLOG=<file>, every claimed obligation that needed more than a second is appended to the file
// (margin audit: a claimed obligation should discharge well under the solver budget).
func slowLog(prop, name, solver string, t float64) {
	p := os.Getenv("GOVC_SLOWLOG")
	if p == "" || t < 1.0 {
		return
	}
	f, err := os.OpenFile(p, os.O_APPEND|os.O_CREATE|os.O_WRONLY, 0o644)
	if err != nil {
		return
	}
	fmt.Fprintf(f, "%.2f %s %s %s\n", t, prop, solver, name)
	f.Close()
}
