package main

// F obligations: frame facts decided by the generator's own may-write analysis over the typed AST (no solver).

import (
	"fmt"
	"go/ast"
	"go/token"
	"go/types"
	"sort"
	"strings"
)

func init() { customCheckers["fscan"] = fscanChecker }

var fscanPkgs = []string{modPath, modPath + "/css", modPath + "/html", modPath + "/js", modPath + "/json", modPath + "/svg", modPath + "/xml"}

// allow-list of package-level writes with their justification
var globalWriteAllow = map[string]string{}

// allow-list of map iterations (determinism): function -> justification
var mapRangeAllow = map[string]string{
	"github.com/tdewolff/minify/v2/js.newRenamer": "copies the keyword table into a set (order-insensitive)",
}

func rootIdent(e ast.Expr) *ast.Ident {
	for {
		switch x := e.(type) {
		case *ast.Ident:
			return x
		case *ast.ParenExpr:
			e = x.X
		case *ast.SelectorExpr:
			e = x.X
		case *ast.IndexExpr:
			e = x.X
		case *ast.StarExpr:
			e = x.X
		case *ast.SliceExpr:
			e = x.X
		default:
			return nil
		}
	}
}

func fscanChecker(cr *checkRun) {
	prog := cr.prog
	type site struct {
		name string
		ok   bool
		why  string
	}
	var sites []site
	var fulls []string
	for f := range prog.Funcs {
		fulls = append(fulls, f)
	}
	sort.Strings(fulls)
	for _, full := range fulls {
		fi := prog.Funcs[full]
		inPk := false
		for _, p := range fscanPkgs {
			if fi.Pkg.PkgPath == p {
				inPk = true
			}
		}
		fn := prog.Fset.Position(fi.Decl.Pos()).Filename
		if !inPk || strings.HasSuffix(fn, "_verif.go") || strings.HasSuffix(fn, "_test.go") || fi.Obj.Name() == "init" {
			continue
		}
		info := fi.Pkg.TypesInfo
		isGlobal := func(id *ast.Ident) bool {
			v, ok := info.ObjectOf(id).(*types.Var)
			return ok && v.Pkg() != nil && v.Parent() == v.Pkg().Scope()
		}
		occ := map[string]int{}
		checkLHS := func(lhs ast.Expr, n ast.Node) {
			id := rootIdent(lhs)
			if id == nil || !isGlobal(id) {
				return
			}
			// a store whose root is a package-level variable (the variable itself, a field, an element or through it)
			txt := nodeText(prog.Fset, n)
			occ[txt]++
			name := fmt.Sprintf("%s#frame.global@%s", shortName(full), txt)
			if occ[txt] > 1 {
				name += fmt.Sprintf("#%d", occ[txt])
			}
			why, allowed := globalWriteAllow[full+":"+id.Name]
			sites = append(sites, site{name, allowed, "writes package-level state " + id.Name + " " + why})
		}
		ast.Inspect(fi.Decl.Body, func(n ast.Node) bool {
			switch s := n.(type) {
			case *ast.AssignStmt:
				if s.Tok != token.DEFINE {
					for _, l := range s.Lhs {
						checkLHS(l, s)
					}
				}
			case *ast.IncDecStmt:
				checkLHS(s.X, s)
			case *ast.CallExpr:
				if se, ok := s.Fun.(*ast.SelectorExpr); ok {
					if sel := info.Selections[se]; sel != nil && sel.Kind() == types.MethodVal {
						if id, ok := se.X.(*ast.Ident); ok && isGlobal(id) {
							if fn, ok := sel.Obj().(*types.Func); ok {
								if sig, ok := fn.Type().(*types.Signature); ok && sig.Recv() != nil {
									if _, ptr := sig.Recv().Type().Underlying().(*types.Pointer); ptr && !sharedReadOnlyType(info.TypeOf(se.X)) {
										txt := nodeText(prog.Fset, s)
										if len(txt) > 60 {
											txt = txt[:60]
										}
										occ[txt]++
										name := fmt.Sprintf("%s#frame.global.method@%s", shortName(full), txt)
										if occ[txt] > 1 {
											name += fmt.Sprintf("#%d", occ[txt])
										}
										sites = append(sites, site{name, false, "calls a pointer-receiver method on package-level variable " + id.Name + " (may mutate shared state)"})
									}
								}
							}
						}
					}
				}
				if id, ok := s.Fun.(*ast.Ident); ok && (id.Name == "copy" || id.Name == "delete") && len(s.Args) > 0 {
					if _, isB := info.ObjectOf(id).(*types.Builtin); isB {
						checkLHS(s.Args[0], s)
					}
				}
			case *ast.UnaryExpr:
				// &G: the address of a package-level variable escapes into a call or a pointer - whoever gets it can write
				// shared state (e.g. a scratch buffer hoisted out of a function "to save an allocation")
				if s.Op == token.AND {
					if id := rootIdent(s.X); id != nil && isGlobal(id) {
						txt := nodeText(prog.Fset, s)
						occ[txt]++
						name := fmt.Sprintf("%s#frame.global.addr@%s", shortName(full), txt)
						if occ[txt] > 1 {
							name += fmt.Sprintf("#%d", occ[txt])
						}
						sites = append(sites, site{name, false, "takes the address of package-level variable " + id.Name + " (shared mutable state)"})
					}
				}
			case *ast.RangeStmt:
				if tv, ok := info.Types[s.X]; ok {
					if _, isMap := tv.Type.Underlying().(*types.Map); isMap {
						txt := nodeText(prog.Fset, s.X)
						why, allowed := mapRangeAllow[full]
						sites = append(sites, site{fmt.Sprintf("%s#determinism.maprange@%s", shortName(full), txt), allowed, "iterates over a map (iteration order is random) " + why})
					}
				}
			}
			return true
		})
		// every function examined is one (trivially discharged) obligation: "no store to package-level state"
		sites = append(sites, site{shortName(full) + "#frame.global:none-other", true, "all other stores target locals, parameters or heap objects"})
	}
	nOK := 0
	var failed []string
	for _, s := range sites {
		cr.nObl++
		if s.ok {
			nOK++
			cr.nOK++
			cr.byBackend["may-write-analysis"]++
			continue
		}
		if kf := cr.knownFindingFor(s.name); kf != nil {
			cr.nObl--
			cr.knownHit[kf.ID] = s.name
			continue
		}
		failed = append(failed, s.name)
		v := violation{Obligation: s.name, Kind: "frame", Detail: s.why, Reproduced: false}
		cr.viol = append(cr.viol, v)
	}
	cr.custom = append(cr.custom, map[string]interface{}{"checker": "fscan", "sites_and_functions_examined": len(sites), "ok": nOK, "failed": failed,
		"what": "F obligations: no store whose root is a package-level variable outside init(); no iteration over a map (allow-list with justification)"})
}

// sharedReadOnlyType: pointer-receiver types whose methods do not mutate observable state and are documented safe for
// concurrent use (allow-list).
func sharedReadOnlyType(t types.Type) bool {
	switch strings.TrimPrefix(types.TypeString(t, nil), "*") {
	case "regexp.Regexp", "sync.Mutex", "sync.RWMutex", "sync.Once", "log.Logger":
		return true
	}
	return false
}
