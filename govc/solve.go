package main

// SMT-LIB emission and solver running.

import (
	"bytes"
	"context"
	"fmt"
	"os/exec"
	"regexp"
	"sort"
	"strings"
	"time"
)

// prelude definitions: name -> (deps, text). Only those referenced are emitted.
type preDef struct {
	deps []string
	text string
}

var prelude = map[string]preDef{}
var preludeOrder []string

func addPrelude(name string, deps []string, text string) {
	if _, ok := prelude[name]; !ok {
		preludeOrder = append(preludeOrder, name)
	}
	prelude[name] = preDef{deps, text}
	builtinFuns[name] = true
}

func init() {
	// number of decimal digits of |x| (strconv.LenInt semantics: LenInt(0) == 1)
	var sb strings.Builder
	sb.WriteString("(define-fun lenint ((x Int)) Int (let ((a (ite (< x 0) (- x) x))) ")
	p := "1"
	closing := ""
	for d := 1; d <= 18; d++ {
		p += "0"
		fmt.Fprintf(&sb, "(ite (< a %s) %d ", p, d)
		closing += ")"
	}
	sb.WriteString("19" + closing + "))")
	addPrelude("lenint", nil, sb.String())
	addPrelude("lower", nil, "(define-fun lower ((c Int)) Int (ite (and (<= 65 c) (<= c 90)) (+ c 32) c))")
	addPrelude("isws", nil, "(define-fun isws ((c Int)) Bool (or (= c 32) (= c 9) (= c 10) (= c 13) (= c 12)))")
}

type Query struct {
	Assumes []*Term
	Goal    *Term   // to be proven (negated in script); nil for cover queries
	Cover   bool    // expect sat
	Values  []*Term // terms whose value to fetch on sat
}

func buildScript(q *Query, forCVC5 bool) string {
	all := append([]*Term{}, q.Assumes...)
	if q.Goal != nil {
		all = append(all, q.Goal)
	}
	all = append(all, q.Values...)
	// bound variable names
	bound := map[string]bool{}
	{
		seen := map[int]bool{}
		var walk func(t *Term)
		walk = func(t *Term) {
			if seen[t.id] {
				return
			}
			seen[t.id] = true
			if t.Op == "forall" || t.Op == "exists" {
				for _, v := range t.Args[:len(t.Args)-1] {
					bound[v.Name] = true
				}
			}
			for _, a := range t.Args {
				walk(a)
			}
		}
		for _, t := range all {
			walk(t)
		}
	}
	hasBoundMemo := map[int]bool{}
	var hasBound func(t *Term) bool
	hasBound = func(t *Term) bool {
		if v, ok := hasBoundMemo[t.id]; ok {
			return v
		}
		r := false
		if t.Op == "var" {
			r = bound[t.Name]
		} else {
			for _, a := range t.Args {
				if hasBound(a) {
					r = true
					break
				}
			}
		}
		hasBoundMemo[t.id] = r
		return r
	}
	// reference counts
	refs := map[int]int{}
	var order []*Term
	{
		seen := map[int]bool{}
		var walk func(t *Term)
		walk = func(t *Term) {
			refs[t.id]++
			if seen[t.id] {
				return
			}
			seen[t.id] = true
			for _, a := range t.Args {
				walk(a)
			}
			order = append(order, t) // post-order: children first
		}
		for _, t := range all {
			walk(t)
		}
	}
	named := map[int]string{}
	var defs []string
	for _, t := range order {
		if refs[t.id] > 1 && len(t.Args) > 0 && !hasBound(t) && t.Op != "forall" && t.Op != "exists" {
			var sb strings.Builder
			t.write(&sb, named)
			if sb.Len() < 24 {
				continue
			}
			n := fmt.Sprintf("t!%d", t.id)
			defs = append(defs, fmt.Sprintf("(declare-const %s %s)\n(assert (= %s %s))", n, t.Sort, n, sb.String()))
			named[t.id] = n
		}
	}
	var sb strings.Builder
	if forCVC5 {
		sb.WriteString("(set-option :produce-models true)\n")
	}
	sb.WriteString("(set-logic ALL)\n")
	if !forCVC5 {
		sb.WriteString("(set-option :produce-models true)\n")
	}
	syms := collectSyms(all, true)
	// prelude
	used := map[string]bool{}
	var need func(n string)
	need = func(n string) {
		if used[n] {
			return
		}
		used[n] = true
		for _, d := range prelude[n].deps {
			need(d)
		}
	}
	{
		seen := map[int]bool{}
		var walk func(t *Term)
		walk = func(t *Term) {
			if seen[t.id] {
				return
			}
			seen[t.id] = true
			if t.Op == "app" && isBuiltinFun(t.Name) {
				need(t.Name)
			}
			for _, a := range t.Args {
				walk(a)
			}
		}
		for _, t := range all {
			walk(t)
		}
	}
	// uninterpreted sorts
	sorts := map[string]bool{}
	for _, s := range syms {
		for _, x := range append([]string{s.sort}, s.args...) {
			for _, w := range regexp.MustCompile(`[A-Za-z_][A-Za-z0-9_.]*`).FindAllString(x, -1) {
				if w != "Int" && w != "Bool" && w != "Array" {
					sorts[w] = true
				}
			}
		}
	}
	var sl []string
	for s := range sorts {
		sl = append(sl, s)
	}
	sort.Strings(sl)
	for _, s := range sl {
		fmt.Fprintf(&sb, "(declare-sort %s 0)\n", s)
	}
	for _, s := range syms {
		if s.isFun {
			fmt.Fprintf(&sb, "(declare-fun %s (%s) %s)\n", smtName(s.name), strings.Join(s.args, " "), s.sort)
		} else {
			fmt.Fprintf(&sb, "(declare-const %s %s)\n", smtName(s.name), s.sort)
		}
	}
	for _, n := range preludeOrder {
		if used[n] {
			sb.WriteString(prelude[n].text + "\n")
		}
	}
	for _, d := range defs {
		sb.WriteString(d + "\n")
	}
	for _, a := range q.Assumes {
		if a.IsTrue() {
			continue
		}
		sb.WriteString("(assert ")
		a.write(&sb, named)
		sb.WriteString(")\n")
	}
	if q.Goal != nil {
		sb.WriteString("(assert (not ")
		q.Goal.write(&sb, named)
		sb.WriteString("))\n")
	}
	sb.WriteString("(check-sat)\n")
	if len(q.Values) > 0 {
		sb.WriteString("(get-value (")
		for _, v := range q.Values {
			v.write(&sb, named)
			sb.WriteByte(' ')
		}
		sb.WriteString("))\n")
	}
	return sb.String()
}

type SolveResult struct {
	Status  string // "unsat","sat","unknown","timeout","error"
	Solver  string
	Time    float64
	Output  string
	Values  []string // raw value strings parallel to Query.Values
	Tried   []string
	Scripts map[string]string
}

type solverSpec struct {
	name string
	args func(sec int) []string
	cvc5 bool
}

var solvers = []solverSpec{
	{"z3-new", func(sec int) []string { return []string{"z3-new", "-in", fmt.Sprintf("-T:%d", sec)} }, false},
	{"cvc5", func(sec int) []string {
		return []string{"cvc5", "--lang=smt2", fmt.Sprintf("--tlimit=%d", sec*1000)}
	}, true},
	{"z3", func(sec int) []string { return []string{"z3", "-in", fmt.Sprintf("-T:%d", sec)} }, false},
}

var solverSeed = 0

func runSolver(sp solverSpec, script string, sec int) (status, out string, dt float64) {
	ctx, cancel := context.WithTimeout(context.Background(), time.Duration(sec+2)*time.Second)
	defer cancel()
	args := sp.args(sec)
	if solverSeed != 0 {
		if sp.cvc5 {
			args = append(args, fmt.Sprintf("--seed=%d", solverSeed))
		} else {
			args = append(args, fmt.Sprintf("smt.random_seed=%d", solverSeed), fmt.Sprintf("sat.random_seed=%d", solverSeed))
		}
	}
	cmd := exec.CommandContext(ctx, args[0], args[1:]...)
	cmd.Stdin = strings.NewReader(script)
	var ob bytes.Buffer
	cmd.Stdout = &ob
	cmd.Stderr = &ob
	t0 := time.Now()
	_ = cmd.Run()
	dt = time.Since(t0).Seconds()
	out = ob.String()
	first := strings.TrimSpace(strings.SplitN(out, "\n", 2)[0])
	switch first {
	case "unsat", "sat", "unknown":
		status = first
	case "timeout":
		status = "timeout"
	default:
		if ctx.Err() != nil || strings.Contains(out, "timeout") || strings.Contains(out, "interrupted") {
			status = "timeout"
		} else {
			status = "error"
		}
	}
	return
}

// Solve tries z3-new first with a short limit, then the others.
func Solve(q *Query, quickSec, totalSec int) *SolveResult {
	res := &SolveResult{Scripts: map[string]string{}}
	want := "unsat"
	if q.Cover {
		want = "sat"
	}
	_ = want
	script := buildScript(q, false)
	res.Scripts["z3"] = script
	try := func(sp solverSpec, sec int) bool {
		sc := script
		if sp.cvc5 {
			sc = buildScript(q, true)
		}
		st, out, dt := runSolver(sp, sc, sec)
		res.Tried = append(res.Tried, fmt.Sprintf("%s:%s:%.2fs", sp.name, st, dt))
		res.Time += dt
		if st == "unsat" || st == "sat" {
			res.Status, res.Solver, res.Output = st, sp.name, out
			if st == "sat" && len(q.Values) > 0 {
				res.Values = parseValues(out, len(q.Values))
			}
			return true
		}
		if res.Status == "" || res.Status == "error" {
			res.Status, res.Solver, res.Output = st, sp.name, out
		}
		return false
	}
	if try(solvers[0], quickSec) {
		return res
	}
	rest := totalSec - quickSec
	if rest < 1 {
		return res
	}
	type r struct {
		sp      solverSpec
		st, out string
		dt      float64
	}
	ch := make(chan r, 3)
	cands := []solverSpec{solvers[1], solvers[2], solvers[0]}
	for _, sp := range cands {
		sp := sp
		go func() {
			sc := script
			if sp.cvc5 {
				sc = buildScript(q, true)
			}
			st, out, dt := runSolver(sp, sc, rest)
			ch <- r{sp, st, out, dt}
		}()
	}
	for range cands {
		x := <-ch
		res.Tried = append(res.Tried, fmt.Sprintf("%s:%s:%.2fs", x.sp.name, x.st, x.dt))
		if x.st == "unsat" || x.st == "sat" {
			res.Status, res.Solver, res.Output = x.st, x.sp.name, x.out
			res.Time += x.dt
			if x.st == "sat" && len(q.Values) > 0 {
				res.Values = parseValues(x.out, len(q.Values))
			}
			return res
		}
	}
	res.Time += float64(rest)
	// last resort: exhaustive case split on (up to three) conditions of if-then-else terms in the goal - typically the
	// "append fits in place" and merged-branch conditions that make memories conditional. Sound: the cases cover
	// everything; every case must be unsat. A sat case is a model of the original query as well.
	if !q.Cover && q.Goal != nil {
		conds := iteConds(q.Goal, 3)
		if len(conds) > 0 {
			n := 1 << uint(len(conds))
			type cr struct {
				st, out string
				dt      float64
			}
			cch := make(chan cr, n)
			for m := 0; m < n; m++ {
				q2 := &Query{Assumes: append([]*Term{}, q.Assumes...), Goal: q.Goal, Values: q.Values}
				for i, c := range conds {
					if m&(1<<uint(i)) != 0 {
						q2.Assumes = append(q2.Assumes, c)
					} else {
						q2.Assumes = append(q2.Assumes, Not(c))
					}
				}
				go func() {
					st, out, dt := runSolver(solvers[0], buildScript(q2, false), quickSec)
					cch <- cr{st, out, dt}
				}()
			}
			allUnsat := true
			maxDt := 0.0
			for m := 0; m < n; m++ {
				x := <-cch
				if x.dt > maxDt {
					maxDt = x.dt
				}
				if x.st == "sat" {
					res.Status, res.Solver, res.Output = "sat", solvers[0].name+"+cases", x.out
					if len(q.Values) > 0 {
						res.Values = parseValues(x.out, len(q.Values))
					}
					allUnsat = false
				} else if x.st != "unsat" {
					allUnsat = false
				}
			}
			res.Time += maxDt
			res.Tried = append(res.Tried, fmt.Sprintf("case-split(%d):%v:%.2fs", n, allUnsat, maxDt))
			if allUnsat {
				res.Status, res.Solver = "unsat", solvers[0].name+"+cases"
			}
		}
	}
	return res
}

// iteConds: the first max distinct conditions of ite terms inside t (outermost first), skipping conditions that
// contain bound variables.
func iteConds(t *Term, max int) []*Term {
	var out []*Term
	seen := map[int]bool{}
	have := map[int]bool{}
	var walk func(t *Term, bound map[string]bool)
	hasBound := func(c *Term, bound map[string]bool) bool {
		if len(bound) == 0 {
			return false
		}
		for _, s := range termSyms(c) {
			if bound[s] {
				return true
			}
		}
		return false
	}
	walk = func(t *Term, bound map[string]bool) {
		if t == nil || len(out) >= max || seen[t.id] {
			return
		}
		seen[t.id] = true
		if t.Op == "forall" || t.Op == "exists" {
			nb := map[string]bool{}
			for k := range bound {
				nb[k] = true
			}
			for _, v := range t.Args[:len(t.Args)-1] {
				nb[v.Name] = true
			}
			walk(t.Args[len(t.Args)-1], nb)
			return
		}
		if t.Op == "ite" && len(t.Args) == 3 {
			c := t.Args[0]
			if !have[c.id] && !hasBound(c, bound) && c != True && c != False {
				have[c.id] = true
				out = append(out, c)
			}
		}
		for _, a := range t.Args {
			walk(a, bound)
		}
	}
	walk(t, map[string]bool{})
	return out
}

// parseValues parses "((expr val) (expr val) ...)" returning the val strings.
func parseValues(out string, n int) []string {
	i := strings.Index(out, "((")
	if i < 0 {
		return nil
	}
	s := out[i:]
	// tokenise s-expression
	pos := 0
	var parse func() interface{}
	skip := func() {
		for pos < len(s) && (s[pos] == ' ' || s[pos] == '\n' || s[pos] == '\t' || s[pos] == '\r') {
			pos++
		}
	}
	parse = func() interface{} {
		skip()
		if pos >= len(s) {
			return nil
		}
		if s[pos] == '(' {
			pos++
			var l []interface{}
			for {
				skip()
				if pos >= len(s) {
					return l
				}
				if s[pos] == ')' {
					pos++
					return l
				}
				l = append(l, parse())
			}
		}
		if s[pos] == '|' {
			j := strings.IndexByte(s[pos+1:], '|')
			tok := s[pos : pos+j+2]
			pos += j + 2
			return tok
		}
		st := pos
		for pos < len(s) && !strings.ContainsRune(" \n\t\r()", rune(s[pos])) {
			pos++
		}
		return s[st:pos]
	}
	top, _ := parse().([]interface{})
	var vals []string
	for _, p := range top {
		pl, ok := p.([]interface{})
		if !ok || len(pl) != 2 {
			vals = append(vals, "?")
			continue
		}
		vals = append(vals, sexprString(pl[1]))
	}
	return vals
}

func sexprString(x interface{}) string {
	switch v := x.(type) {
	case string:
		return v
	case []interface{}:
		var parts []string
		for _, y := range v {
			parts = append(parts, sexprString(y))
		}
		return "(" + strings.Join(parts, " ") + ")"
	}
	return "?"
}

// parseIntValue parses "5" or "(- 5)".
func parseIntValue(s string) (int64, bool) {
	s = strings.TrimSpace(s)
	neg := false
	if strings.HasPrefix(s, "(-") {
		neg = true
		s = strings.TrimSpace(strings.TrimSuffix(strings.TrimPrefix(s, "(-"), ")"))
	}
	var v int64
	if _, err := fmt.Sscanf(s, "%d", &v); err != nil {
		return 0, false
	}
	if neg {
		v = -v
	}
	return v, true
}
