package main

// Evaluation of contract (spec) expressions. Contracts are Go expression syntax, untyped for the Go
// compiler; here they are evaluated directly to terms against a symbolic state.

import (
	"fmt"
	"go/ast"
	"go/constant"
	"go/token"
	"go/types"
	"math/big"
	"strconv"
	"strings"

	"golang.org/x/tools/go/packages"
)

type SpecEnv struct {
	vc    *VC
	st    *State
	old   *State
	iter  *State
	pre   *State // state just before the current loop (for pre())
	cur   *State // inside old()/pre()/iter(): the current state, used for locals that have no value in the older state
	names map[string]Val
	scope *types.Scope
	pos   token.Pos
	pkg   *packages.Package
	where string
	failed bool
}

func (vc *VC) specEnvAt(st *State, pos token.Pos) *SpecEnv {
	env := &SpecEnv{vc: vc, st: st, old: vc.entry, iter: st.iterSnap, names: map[string]Val{}, pkg: vc.pkg, pos: pos}
	if vc.fi != nil {
		env.scope = innermostScope(vc.info, vc.fi.Decl, pos)
	}
	// result names
	for _, ro := range vc.resObjs {
		if v, ok := st.vars[ro]; ok {
			env.names["$res:"+ro.Name()] = v
		}
	}
	return env
}

func innermostScope(info *types.Info, fd *ast.FuncDecl, pos token.Pos) *types.Scope {
	fs := info.Scopes[fd.Type]
	if fs == nil {
		return nil
	}
	s := fs.Innermost(pos)
	if s == nil {
		return fs
	}
	return s
}

func (env *SpecEnv) withNames(m map[string]Val) *SpecEnv {
	n := *env
	n.names = map[string]Val{}
	for k, v := range env.names {
		n.names[k] = v
	}
	for k, v := range m {
		n.names[k] = v
	}
	return &n
}

func (env *SpecEnv) errorf(format string, a ...interface{}) {
	env.failed = true
	msg := fmt.Sprintf(format, a...)
	env.vc.prog.Errors = append(env.vc.prog.Errors, fmt.Sprintf("%s: spec error: %s", env.vc.unit, msg))
}

// safeEval: a clause that names something the code no longer has (a renamed or removed local) records a spec error - a
// contract-binding violation - and may then build ill-sorted terms; that must end in the recorded error, not in a
// generator panic.
func (env *SpecEnv) safeEval(e ast.Expr) (v Val) {
	defer func() {
		if r := recover(); r != nil {
			if !env.failed {
				panic(r)
			}
			v = Val{}
		}
	}()
	return env.eval(e)
}

func (vc *VC) specBool(env *SpecEnv, e ast.Expr) *Term {
	v := env.safeEval(e)
	if env.failed && (len(v.C) != 1 || v.C[0].Sort != SBool) {
		return False
	}
	if len(v.C) != 1 || v.C[0].Sort != SBool {
		env.errorf("expected boolean spec expression: %s", exprString(e))
		return False
	}
	return v.C[0]
}

// specAssumable evaluates a clause that is going to be ASSUMED: a clause with a spec error contributes nothing
// (the error itself fails the check), so that a broken contract can never assume false.
func (vc *VC) specAssumable(env *SpecEnv, e ast.Expr) *Term {
	env.failed = false
	t := vc.specBool(env, e)
	if env.failed {
		return True
	}
	return t
}

func (vc *VC) specInt(env *SpecEnv, e ast.Expr) *Term {
	v := env.safeEval(e)
	if len(v.C) != 1 || v.C[0].Sort != SInt {
		env.errorf("expected integer spec expression: %s", exprString(e))
		return Zero
	}
	return v.C[0]
}

func exprString(e ast.Expr) string { return types.ExprString(e) }

var tInt = types.Typ[types.Int]
var tBool = types.Typ[types.Bool]
var tByte = types.Typ[types.Uint8]

func intVal(t *Term) Val  { return mkVal(tInt, t) }
func boolVal(t *Term) Val { return mkVal(tBool, t) }

func (env *SpecEnv) lookup(name string) (Val, bool) {
	if v, ok := env.names[name]; ok {
		return v, true
	}
	if v, ok := env.names["$res:"+name]; ok {
		return v, true
	}
	vc := env.vc
	if env.scope != nil {
		_, obj := env.scope.LookupParent(name, env.pos)
		if obj == nil {
			// try without position restriction (variables declared later in same scope are not visible, by design)
			_, obj = env.scope.LookupParent(name, token.NoPos)
		}
		switch o := obj.(type) {
		case *types.Var:
			if v, ok := env.st.vars[o]; ok {
				if vc.addrTaken[o] {
					return vc.loadElem(env.st, o.Type(), v.C[0], v.C[1]), true
				}
				return v, true
			}
			if env.cur != nil {
				// a local that did not exist in the older state: old() only affects heap reads and parameters
				if v, ok := env.cur.vars[o]; ok && !vc.addrTaken[o] {
					return v, true
				}
			}
			if o.Pkg() != nil && o.Parent() == o.Pkg().Scope() {
				return vc.loadGlobal(o, env.st), true
			}
		case *types.Const:
			if v, ok := constVal(o.Type(), o.Val(), vc); ok {
				return v, true
			}
		}
	}
	if env.pkg != nil && env.pkg.Types != nil {
		obj := env.pkg.Types.Scope().Lookup(name)
		switch o := obj.(type) {
		case *types.Var:
			return vc.loadGlobal(o, env.st), true
		case *types.Const:
			if v, ok := constVal(o.Type(), o.Val(), vc); ok {
				return v, true
			}
		}
	}
	// a block-scoped local that is out of lexical scope at the clause's position (e.g. a variable of an if-init, named
	// by a step clause evaluated at the back edge) but still has a value on this path: accepted when unambiguous
	{
		var hit *types.Var
		n := 0
		for o := range env.st.vars {
			if v, ok := o.(*types.Var); ok && v.Name() == name && !v.IsField() {
				hit = v
				n++
			}
		}
		if n == 1 {
			if v := env.st.vars[hit]; !vc.addrTaken[hit] {
				return v, true
			}
		}
	}
	switch name {
	case "true":
		return boolVal(True), true
	case "false":
		return boolVal(False), true
	case "MaxInt":
		return intVal(IntBig(new(big.Int).Sub(pow2(63), big.NewInt(1)))), true
	case "MinInt":
		return intVal(IntBig(new(big.Int).Neg(pow2(63)))), true
	}
	return Val{}, false
}

func (env *SpecEnv) eval(e ast.Expr) Val {
	vc := env.vc
	switch x := e.(type) {
	case *ast.ParenExpr:
		return env.eval(x.X)
	case *ast.BasicLit:
		switch x.Kind {
		case token.INT:
			v := constant.MakeFromLiteral(x.Value, token.INT, 0)
			bi, _ := new(big.Int).SetString(v.ExactString(), 10)
			return intVal(IntBig(bi))
		case token.CHAR:
			r, _, _, err := strconv.UnquoteChar(x.Value[1:len(x.Value)-1], '\'')
			if err != nil {
				env.errorf("bad char literal %s", x.Value)
			}
			return intVal(IntK(int64(r)))
		case token.STRING:
			s, _ := strconv.Unquote(x.Value)
			return vc.stringConst(nil, s)
		}
	case *ast.Ident:
		if x.Name == "nil" {
			return Val{T: nil, C: []*Term{Zero}}
		}
		if v, ok := env.lookup(x.Name); ok {
			return v
		}
		env.errorf("unknown name %q in contract (%s)", x.Name, env.where)
		return intVal(Zero)
	case *ast.UnaryExpr:
		v := env.eval(x.X)
		switch x.Op {
		case token.NOT:
			return boolVal(Not(v.C[0]))
		case token.SUB:
			return intVal(Neg(v.C[0]))
		case token.ADD:
			return v
		}
	case *ast.BinaryExpr:
		return env.evalBinary(x)
	case *ast.IndexExpr:
		b := env.eval(x.X)
		i := env.eval(x.Index)
		switch kindOf(b.T) {
		case KSlice:
			return vc.loadElem(env.st, elemTypeOf(b.T), b.Arr(), Add(b.Off(), i.C[0]))
		case KString:
			return mkVal(tByte, Select(Select(vc.strMem(), b.C[0]), Add(b.C[1], i.C[0])))
		case KArray:
			return vc.loadElem(env.st, elemTypeOf(b.T), b.C[0], i.C[0])
		case KMap:
			v, _ := vc.mapLoad(env.st, b.T, b, i)
			return v
		}
		env.errorf("cannot index %s", exprString(x.X))
		return intVal(Zero)
	case *ast.SliceExpr:
		b := env.eval(x.X)
		lo := Zero
		if x.Low != nil {
			lo = env.eval(x.Low).C[0]
		}
		switch kindOf(b.T) {
		case KSlice:
			hi := b.Len()
			if x.High != nil {
				hi = env.eval(x.High).C[0]
			}
			mx := b.Cap()
			if x.Max != nil {
				mx = env.eval(x.Max).C[0]
			}
			return mkVal(b.T, b.Arr(), Add(b.Off(), lo), Sub(hi, lo), Sub(mx, lo))
		case KString:
			hi := b.C[2]
			if x.High != nil {
				hi = env.eval(x.High).C[0]
			}
			return mkVal(b.T, b.C[0], Add(b.C[1], lo), Sub(hi, lo))
		}
		env.errorf("cannot slice %s", exprString(x.X))
		return intVal(Zero)
	case *ast.SelectorExpr:
		// pkg-qualified constant/var?
		if id, ok := x.X.(*ast.Ident); ok {
			if _, found := env.lookup(id.Name); !found {
				if v, ok := env.lookupQualified(id.Name, x.Sel.Name); ok {
					return v
				}
			}
		}
		b := env.eval(x.X)
		return env.field(b, x.Sel.Name, x)
	case *ast.StarExpr:
		p := env.eval(x.X)
		if kindOf(p.T) != KPtr {
			env.errorf("deref of non-pointer %s", exprString(x.X))
			return intVal(Zero)
		}
		return vc.loadElem(env.st, elemTypeOf(p.T), p.C[0], p.C[1])
	case *ast.CallExpr:
		return env.evalCall(x)
	}
	env.errorf("unsupported spec expression %s", exprString(e))
	return intVal(Zero)
}

func (env *SpecEnv) lookupQualified(pkgName, name string) (Val, bool) {
	vc := env.vc
	if env.pkg == nil {
		return Val{}, false
	}
	// an import alias declared in one of the package's files wins (minifyXML "…/minify/v2/xml")
	aliasPath := ""
	for _, f := range env.pkg.Syntax {
		for _, is := range f.Imports {
			if is.Name != nil && is.Name.Name == pkgName {
				aliasPath = strings.Trim(is.Path.Value, "\"")
			}
		}
	}
	for path, imp := range env.pkg.Imports {
		if (aliasPath != "" && path == aliasPath) || (aliasPath == "" && (imp.Name == pkgName || strings.HasSuffix(path, "/"+pkgName))) {
			obj := imp.Types.Scope().Lookup(name)
			switch o := obj.(type) {
			case *types.Var:
				return vc.loadGlobal(o, env.st), true
			case *types.Const:
				if v, ok := constVal(o.Type(), o.Val(), vc); ok {
					return v, true
				}
			}
		}
	}
	return Val{}, false
}

func (env *SpecEnv) field(b Val, name string, n ast.Node) Val {
	vc := env.vc
	cur := b
	if kindOf(cur.T) == KPtr {
		cur = vc.loadElem(env.st, elemTypeOf(cur.T), cur.C[0], cur.C[1])
	}
	if cur.T == nil {
		env.errorf("field %s of untyped value", name)
		return intVal(Zero)
	}
	// direct field, or promoted through embedded structs
	obj, index, _ := types.LookupFieldOrMethod(cur.T, true, nil, name)
	if obj == nil && env.pkg != nil {
		obj, index, _ = types.LookupFieldOrMethod(cur.T, true, env.pkg.Types, name)
	}
	if obj == nil {
		// unexported field from other package: search by name
		if lo, hi, ft, ok := fieldRange(cur.T, name); ok {
			return Val{T: ft, C: cur.C[lo:hi]}
		}
		env.errorf("no field %s in %s", name, typeKey(cur.T))
		return intVal(Zero)
	}
	if _, isVar := obj.(*types.Var); !isVar {
		env.errorf("%s is not a field", name)
		return intVal(Zero)
	}
	for _, idx := range index {
		if kindOf(cur.T) == KPtr {
			cur = vc.loadElem(env.st, elemTypeOf(cur.T), cur.C[0], cur.C[1])
		}
		stt := cur.T.Underlying().(*types.Struct)
		f := stt.Field(idx)
		lo, hi, ft, _ := fieldRange(cur.T, f.Name())
		cur = Val{T: ft, C: cur.C[lo:hi]}
	}
	return cur
}

func (env *SpecEnv) evalBinary(x *ast.BinaryExpr) Val {
	switch x.Op {
	case token.LAND:
		return boolVal(And(env.eval(x.X).C[0], env.eval(x.Y).C[0]))
	case token.LOR:
		return boolVal(Or(env.eval(x.X).C[0], env.eval(x.Y).C[0]))
	}
	l := env.eval(x.X)
	r := env.eval(x.Y)
	switch x.Op {
	case token.EQL, token.NEQ:
		var eq *Term
		switch {
		case len(l.C) == 1 && len(r.C) == 1 && l.C[0].Sort == "Flt" && r.C[0].Sort == "Flt":
			// float comparison: the same uninterpreted predicate the code's == evaluates to (NaN != NaN, so not identity)
			eq = App("flt_eq", SBool, l.C[0], r.C[0])
		case l.T == nil && r.T == nil:
			if len(l.C) == len(r.C) && len(l.C) > 0 && l.C[0].Sort == r.C[0].Sort {
				eq = eqVal(l, r)
			} else {
				eq = True
			}
		case l.T == nil || r.T == nil:
			// comparison with nil
			o := l
			if l.T == nil {
				o = r
			}
			eq = Eq(o.C[0], Zero)
		case kindOf(l.T) == KString && kindOf(r.T) == KString:
			eq = env.vc.stringEq(l, r, env.st)
		case len(l.C) == len(r.C):
			eq = eqVal(l, r)
		default:
			env.errorf("cannot compare %s and %s", exprString(x.X), exprString(x.Y))
			eq = False
		}
		if x.Op == token.NEQ {
			eq = Not(eq)
		}
		return boolVal(eq)
	}
	if x.Op == token.ADD && l.T != nil && r.T != nil && kindOf(l.T) == KString && kindOf(r.T) == KString {
		return env.vc.stringConcat(l, r, env.st, l.T)
	}
	a, b := l.C[0], r.C[0]
	switch x.Op {
	case token.LSS:
		return boolVal(Lt(a, b))
	case token.LEQ:
		return boolVal(Le(a, b))
	case token.GTR:
		return boolVal(Gt(a, b))
	case token.GEQ:
		return boolVal(Ge(a, b))
	case token.ADD:
		return intVal(Add(a, b))
	case token.SUB:
		return intVal(Sub(a, b))
	case token.MUL:
		return intVal(Mul(a, b))
	case token.QUO:
		return intVal(TDiv(a, b))
	case token.REM:
		return intVal(TRem(a, b))
	case token.SHL:
		if k, ok := b.Int64(); ok {
			return intVal(Mul(a, IntBig(pow2(k))))
		}
	}
	if x.Op == token.AND {
		if k, ok := b.Int64(); ok && k >= 0 && isPow2(k+1) {
			return intVal(EMod(a, IntK(k+1)))
		}
		if r := andPow2(a, b); r != nil {
			return intVal(r)
		}
		return intVal(App("bitop_"+sanitize(x.Op.String()), SInt, a, b))
	}
	env.errorf("unsupported operator %s in spec", x.Op)
	return intVal(Zero)
}

func (env *SpecEnv) evalCall(x *ast.CallExpr) Val {
	vc := env.vc
	name := ""
	switch f := x.Fun.(type) {
	case *ast.Ident:
		name = f.Name
	case *ast.SelectorExpr:
		name = exprString(f)
	}
	argn := func(n int) bool {
		if len(x.Args) != n {
			env.errorf("%s expects %d arguments", name, n)
			return false
		}
		return true
	}
	switch name {
	case "len":
		if !argn(1) {
			return intVal(Zero)
		}
		v := env.eval(x.Args[0])
		switch kindOf(v.T) {
		case KSlice, KString:
			return intVal(v.Len())
		case KArray:
			return intVal(IntK(v.T.Underlying().(*types.Array).Len()))
		}
		env.errorf("len of %s", exprString(x.Args[0]))
		return intVal(Zero)
	case "cap":
		v := env.eval(x.Args[0])
		return intVal(v.Cap())
	case "isnan":
		if !argn(1) {
			return boolVal(False)
		}
		a := env.eval(x.Args[0])
		if len(a.C) != 1 || a.C[0].Sort != "Flt" {
			env.errorf("isnan needs a float: %s", exprString(x.Args[0]))
			return boolVal(False)
		}
		env.vc.assumeOnce("flt_nan_isnan", App("flt_isnan", SBool, App("flt_nan", "Flt")))
		return boolVal(App("flt_isnan", SBool, a.C[0]))
	case "old":
		if !argn(1) {
			return intVal(Zero)
		}
		n := *env
		n.st = env.old
		if n.cur == nil {
			n.cur = env.st
		}
		n.names = map[string]Val{}
		for k, v := range env.names {
			if strings.HasPrefix(k, "$old:") {
				n.names[strings.TrimPrefix(k, "$old:")] = v
			} else if _, has := n.names[k]; !has {
				n.names[k] = v
			}
		}
		r := n.eval(x.Args[0])
		env.failed = env.failed || n.failed
		return r
	case "pre":
		if env.pre == nil {
			env.errorf("pre() outside a loop invariant")
			return intVal(Zero)
		}
		n := *env
		n.st = env.pre
		r := n.eval(x.Args[0])
		env.failed = env.failed || n.failed
		return r
	case "now":
		// now(e): inside old()/pre()/iter(), evaluate e in the current state
		if env.cur == nil {
			return env.eval(x.Args[0])
		}
		n := *env
		n.st = env.cur
		n.cur = nil
		r := n.eval(x.Args[0])
		env.failed = env.failed || n.failed
		return r
	case "iter":
		if env.iter == nil {
			env.errorf("iter() outside loop step clause")
			return intVal(Zero)
		}
		n := *env
		n.st = env.iter
		return n.eval(x.Args[0])
	case "implies":
		if !argn(2) {
			return boolVal(True)
		}
		return boolVal(Implies(env.eval(x.Args[0]).C[0], env.eval(x.Args[1]).C[0]))
	case "ite":
		if !argn(3) {
			return intVal(Zero)
		}
		c := env.eval(x.Args[0]).C[0]
		return iteVal(c, env.eval(x.Args[1]), env.eval(x.Args[2]))
	case "forall", "exists":
		// forall(k, lo, hi, P)
		if !argn(4) {
			return boolVal(True)
		}
		id, ok := x.Args[0].(*ast.Ident)
		if !ok {
			env.errorf("forall: first argument must be an identifier")
			return boolVal(True)
		}
		vc.freshN++
		k := Var(fmt.Sprintf("%s!q%d", id.Name, vc.freshN), SInt)
		n := env.withNames(map[string]Val{id.Name: intVal(k)})
		lo := n.eval(x.Args[1]).C[0]
		hi := n.eval(x.Args[2]).C[0]
		body := n.eval(x.Args[3])
		env.failed = env.failed || n.failed
		rng := And(Le(lo, k), Lt(k, hi))
		if name == "forall" {
			// distribute over conjunctions: forall k. R => (A && B)  ==  (forall k. R => A) && (forall k. R => B);
			// the smaller quantified facts are far easier for e-matching (struct equalities have a dozen components)
			if distributeForall && body.C[0].Op == "and" && len(body.C[0].Args) <= 32 {
				var parts []*Term
				for i, c := range body.C[0].Args {
					vc.freshN++
					ki := Var(fmt.Sprintf("%s!q%d_%d", id.Name, vc.freshN, i), SInt)
					parts = append(parts, Forall([]*Term{ki}, Subst(Implies(rng, c), map[string]*Term{k.Name: ki})))
				}
				return boolVal(And(parts...))
			}
			return boolVal(Forall([]*Term{k}, Implies(rng, body.C[0])))
		}
		return boolVal(Exists([]*Term{k}, And(rng, body.C[0])))
	case "sub":
		// sub(r, b): r lies within b's [off, off+len) range of the same array (or r is empty/nil only if equal arrays)
		if !argn(2) {
			return boolVal(True)
		}
		r := env.eval(x.Args[0])
		b := env.eval(x.Args[1])
		return boolVal(And(Eq(r.Arr(), b.Arr()), Le(b.Off(), r.Off()), Le(Add(r.Off(), r.Len()), Add(b.Off(), b.Len()))))
	case "same":
		// same slice header (array, offset, length)
		r := env.eval(x.Args[0])
		b := env.eval(x.Args[1])
		return boolVal(And(Eq(r.Arr(), b.Arr()), Eq(r.Off(), b.Off()), Eq(r.Len(), b.Len())))
	case "aliases":
		r := env.eval(x.Args[0])
		b := env.eval(x.Args[1])
		return boolVal(And(Eq(r.Arr(), b.Arr()), Ne(r.Arr(), Zero)))
	case "fresh":
		// fresh(x): x's backing array was allocated during the call
		r := env.eval(x.Args[0])
		oldNext := vc.heapIn(env.old, "$nextArr", SInt)
		return boolVal(Le(oldNext, r.C[0]))
	case "allocated":
		r := env.eval(x.Args[0])
		return boolVal(And(Lt(Zero, r.C[0]), Lt(r.C[0], vc.heapIn(env.st, "$nextArr", SInt))))
	case "arr":
		return intVal(env.eval(x.Args[0]).C[0])
	case "off":
		return intVal(env.eval(x.Args[0]).C[1])
	case "beq":
		// beq(a, b): equal length and contents (a, b byte slices evaluated in the current env; wrap in old() as needed)
		a := env.eval(x.Args[0])
		b := env.eval(x.Args[1])
		return boolVal(env.seqEq(a, b))
	case "lenint", "lower":
		return intVal(App(name, SInt, env.eval(x.Args[0]).C[0]))
	case "isws":
		return boolVal(App(name, SBool, env.eval(x.Args[0]).C[0]))
	case "min":
		a, b := env.eval(x.Args[0]).C[0], env.eval(x.Args[1]).C[0]
		return intVal(Ite(Le(a, b), a, b))
	case "max":
		a, b := env.eval(x.Args[0]).C[0], env.eval(x.Args[1]).C[0]
		return intVal(Ite(Le(a, b), b, a))
	case "abs":
		a := env.eval(x.Args[0]).C[0]
		return intVal(Ite(Le(Zero, a), a, Neg(a)))
	case "in":
		// in(x, a, b, c...) : x equals one of
		v := env.eval(x.Args[0]).C[0]
		var ds []*Term
		for _, a := range x.Args[1:] {
			ds = append(ds, Eq(v, env.eval(a).C[0]))
		}
		return boolVal(Or(ds...))
	case "isnil":
		return boolVal(Eq(env.eval(x.Args[0]).C[0], Zero))
	case "int", "byte", "int64":
		return intVal(env.eval(x.Args[0]).C[0])
	case "mem":
		// mem(x): current memory term of x's element type (for rare direct use)
		v := env.eval(x.Args[0])
		et := elemTypeOf(v.T)
		cp := layout(et)[0]
		return mkVal(nil, vc.heapIn(env.st, heapNameFor(et, cp), heapSort(cp)))
	case "has":
		// has(m, k): key present in map
		m := env.eval(x.Args[0])
		k := env.eval(x.Args[1])
		_, h := vc.mapLoad(env.st, m.T, m, k)
		return boolVal(h)
	}
	// uninterpreted spec functions: u_name(args...) Int-valued, p_name(args...) Bool-valued
	if strings.HasPrefix(name, "u_") || strings.HasPrefix(name, "p_") {
		var args []*Term
		for _, a := range x.Args {
			args = append(args, env.eval(a).C...)
		}
		if strings.HasPrefix(name, "u_") {
			return intVal(App(name, SInt, args...))
		}
		return boolVal(App(name, SBool, args...))
	}
	if v, ok := env.ghostCall(name, x); ok {
		return v
	}
	// a call of a PURE contracted/extern function of the program without postconditions: the same uninterpreted
	// application the code's own calls evaluate to (so a spec can name `parse.EqualFold(a, b)` as the code does)
	if sel, ok := x.Fun.(*ast.SelectorExpr); ok && env.pkg != nil {
		if pid, ok := sel.X.(*ast.Ident); ok {
			for path, imp := range env.pkg.Imports {
				if imp.Name != pid.Name && !strings.HasSuffix(path, "/"+pid.Name) {
					continue
				}
				fn, _ := imp.Types.Scope().Lookup(sel.Sel.Name).(*types.Func)
				if fn == nil {
					continue
				}
				full := funcFullName(fn)
				con := vc.prog.Contracts[full]
				sig := fn.Type().(*types.Signature)
				if con == nil || !con.Pure || sig.Results().Len() != 1 {
					env.errorf("spec call of %s: only pure functions can be named in specs", full)
					return intVal(Zero)
				}
				var as []*Term
				for _, a := range x.Args {
					as = append(as, vc.pureArgTerms(env.st, env.eval(a))...)
				}
				l := layout(sig.Results().At(0).Type())
				if len(l) != 1 {
					env.errorf("spec call of %s: result is not a scalar", full)
					return intVal(Zero)
				}
				return mkVal(sig.Results().At(0).Type(), App("pure:"+full, l[0].Sort, as...))
			}
		}
	}
	if id, ok := x.Fun.(*ast.Ident); ok && env.pkg != nil && env.pkg.Types != nil {
		// same-package pure function without postconditions
		if fn, _ := env.pkg.Types.Scope().Lookup(id.Name).(*types.Func); fn != nil {
			full := funcFullName(fn)
			con := vc.prog.Contracts[full]
			sig := fn.Type().(*types.Signature)
			if con != nil && con.Pure && sig.Results().Len() == 1 {
				var as []*Term
				for _, a := range x.Args {
					as = append(as, vc.pureArgTerms(env.st, env.eval(a))...)
				}
				if l := layout(sig.Results().At(0).Type()); len(l) == 1 {
					return mkVal(sig.Results().At(0).Type(), App("pure:"+full, l[0].Sort, as...))
				}
			}
		}
	}
	env.errorf("unknown spec function %s", name)
	return intVal(Zero)
}

func (vc *VC) heapIn(st *State, name, sortS string) *Term {
	return vc.heap(st, name, sortS)
}

// seqEq: contents equality of two byte sequences (slice or string), each read from its own env state.
func (env *SpecEnv) seqEq(a, b Val) *Term {
	vc := env.vc
	rd := func(v Val, k *Term) *Term {
		if kindOf(v.T) == KString {
			return Select(Select(vc.strMem(), v.C[0]), Add(v.C[1], k))
		}
		et := elemTypeOf(v.T)
		cp := layout(et)[0]
		h := vc.heapIn(env.st, heapNameFor(et, cp), heapSort(cp))
		return Select(Select(h, v.C[0]), Add(v.C[1], k))
	}
	vc.freshN++
	k := Var(fmt.Sprintf("k!q%d", vc.freshN), SInt)
	return And(Eq(a.Len(), b.Len()), Forall([]*Term{k}, Implies(And(Le(Zero, k), Lt(k, a.Len())), Eq(rd(a, k), rd(b, k)))))
}

var distributeForall = false
