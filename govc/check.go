package main

// Property checks: which units decide which property, verdicts, evidence, replay files.

import (
	"encoding/json"
	"flag"
	"fmt"
	"os"
	"path/filepath"
	"regexp"
	"sort"
	"strconv"
	"strings"
	"time"
)

// verifDir: where registries, references, known findings, evidence and replays live - the directory the check script
// runs in (it cds to its own location), so that a snapshot of /verif elsewhere (vp run) stays self-contained.
var verifDir = func() string {
	if d := os.Getenv("GOVC_VERIF_DIR"); d != "" {
		return d
	}
	if wd, err := os.Getwd(); err == nil {
		if _, err := os.Stat(filepath.Join(wd, "properties.jsonl")); err == nil {
			return wd
		}
	}
	return "/verif"
}()

type BoundedUnit struct {
	For       string // the function of /repo this harness is about
	Harness   string // function name in a *_verif.go file (package-qualified path prefix + name)
	QuickN    int
	ThoroughN int
	Tier      string // "" both, "quick" or "thorough" only
	What      string
}

type PropSpec struct {
	ID       string
	Units    []string // functions under full contract (full names)
	Bounded  []BoundedUnit
	Custom   []string // names of custom checkers (tables, frames, ...)
	Partial  []string // functions under partial contract (registry-claimed obligations)
	Patterns []string // package patterns to load
	Notes    []string
	Trusted  []string
}

const modPath = "github.com/tdewolff/minify/v2"
const parsePath = "github.com/tdewolff/parse/v2"

var props = map[string]*PropSpec{}

func registerProp(p *PropSpec) { props[p.ID] = p }

type KnownFinding struct {
	Property string `json:"property"`
	ID       string `json:"id"`
	Status   string `json:"status"` // open | fixed
	Unit     string `json:"unit,omitempty"`
	Match    string `json:"match,omitempty"` // regexp on obligation name / violation message+input
	What     string `json:"what"`
	Commit   string `json:"commit,omitempty"`
	Canary   string `json:"canary,omitempty"` // harness that must still FAIL while the finding is open
}

func loadKnownFindings() []KnownFinding {
	b, err := os.ReadFile(filepath.Join(verifDir, "known_findings.json"))
	if err != nil {
		return nil
	}
	var kf struct {
		Findings []KnownFinding `json:"findings"`
	}
	json.Unmarshal(b, &kf)
	return kf.Findings
}

type violation struct {
	Obligation string
	Kind       string
	Unit       string
	Detail     string
	Replay     string
	Reproduced bool
	Input      string
}

type unitEvidence struct {
	Function    string   `json:"function"`
	Obligations int      `json:"obligations"`
	Discharged  int      `json:"discharged"`
	Covers      int      `json:"covers_sat"`
	SoftCovers  []string `json:"unreachable_returns,omitempty"`
	Abstractions []string `json:"abstractions,omitempty"`
	AssumedCallees []string `json:"callee_contracts_used"`
	GenSeconds  float64  `json:"gen_s"`
	Failed      []string `json:"failed,omitempty"`
}

type checkRun struct {
	prop     *PropSpec
	tier     string
	seed     int
	prog     *Program
	t0       time.Time
	units    []unitEvidence
	bounded  []*BResult
	custom   []map[string]interface{}
	viol     []violation
	known    []string
	nObl     int
	nOK      int
	byBackend map[string]int
	solverTime float64
	slowest  []string
	samples  []interface{}
	assumptions map[string]bool
	undecided []string
	registry map[string]bool
	knownHit map[string]string
	allNames []string
}

func slug(s string) string {
	s = regexp.MustCompile(`[^A-Za-z0-9]+`).ReplaceAllString(s, "_")
	if len(s) > 80 {
		s = s[:80]
	}
	return strings.Trim(s, "_")
}

func cmdCheck(args []string) int {
	fs := flag.NewFlagSet("check", flag.ExitOnError)
	tier := fs.String("tier", "quick", "quick|thorough")
	replay := fs.String("replay", "", "replay file")
	id := ""
	if len(args) > 0 && !strings.HasPrefix(args[0], "-") {
		id = args[0]
		args = args[1:]
	}
	fs.Parse(args)
	if id == "" && fs.NArg() > 0 {
		id = fs.Arg(0)
	}
	if t := os.Getenv("VERIF_TIER"); t == "quick" || t == "thorough" {
		*tier = t
	}
	seed := 0
	if s := os.Getenv("VERIF_SEED"); s != "" {
		seed, _ = strconv.Atoi(s)
	}
	solverSeed = seed
	p, ok := props[id]
	if !ok {
		fmt.Printf("unknown property %q\n", id)
		return 2
	}
	if *replay != "" {
		return replayFile(p, *replay)
	}
	if *tier == "thorough" {
		quickSec, totalSec = 10, 120
	}
	cr := &checkRun{prop: p, tier: *tier, seed: seed, t0: time.Now(), byBackend: map[string]int{}, assumptions: map[string]bool{}, knownHit: map[string]string{}}
	// always the whole module: the contract set (shared externs, callee contracts) must not depend on which packages a
	// check happens to load - a contract file that is not loaded silently turns its functions into unknown calls
	pats := []string{"./..."}
	prog, err := LoadProgram(repoDir, pats)
	if err != nil {
		fmt.Println("ERROR: cannot load /repo with -tags=verif:", err)
		cr.viol = append(cr.viol, violation{Obligation: "load", Kind: "load", Detail: err.Error()})
		return cr.finish()
	}
	cr.prog = prog
	for _, e := range prog.Errors {
		fmt.Println("contract error:", e)
	}
	nerr := len(prog.Errors)
	for _, u := range p.Units {
		cr.runUnit(u)
	}
	for _, name := range p.Custom {
		if f, ok := customCheckers[name]; ok {
			f(cr)
		} else {
			fmt.Println("unknown custom checker", name)
		}
	}
	for _, b := range p.Bounded {
		cr.runBounded(b)
	}
	if len(prog.Errors) > nerr || nerr > 0 {
		for _, e := range prog.Errors {
			if strings.Contains(e, "no longer binds") || strings.Contains(e, "spec error") || strings.Contains(e, "cannot parse") || strings.Contains(e, "does not exist") {
				cr.viol = append(cr.viol, violation{Obligation: "contract-binding", Kind: "binding", Detail: e})
			}
		}
	}
	return cr.finish()
}

var customCheckers = map[string]func(cr *checkRun){}

func (cr *checkRun) runUnit(full string) {
	rep, err := verifyFunc(cr.prog, full)
	if err != nil {
		cr.viol = append(cr.viol, violation{Obligation: full + "#exists", Kind: "missing", Unit: full, Detail: "function under contract no longer exists: " + err.Error()})
		return
	}
	ue := unitEvidence{Function: full, GenSeconds: rep.GenTime, AssumedCallees: rep.Assumed}
	if rep.OutOfSubset != "" {
		cr.viol = append(cr.viol, violation{Obligation: rep.Unit + "#subset", Kind: "subset", Unit: full, Detail: "function left the verifiable subset: " + clipS(rep.OutOfSubset, 400)})
		cr.units = append(cr.units, ue)
		return
	}
	if cr.prog.Contracts[full] == nil {
		cr.viol = append(cr.viol, violation{Obligation: rep.Unit + "#contract", Kind: "binding", Unit: full, Detail: "no contract bound to function"})
	}
	discharge(rep.Obls, 16)
	for k, n := range rep.Abstr {
		ue.Abstractions = append(ue.Abstractions, fmt.Sprintf("%s (x%d)", k, n))
	}
	sort.Strings(ue.Abstractions)
	type slow struct {
		n string
		t float64
	}
	var slows []slow
	for _, o := range rep.Obls {
		if o.Soft {
			if o.Res.Status != "sat" {
				ue.SoftCovers = append(ue.SoftCovers, o.Name)
			}
			continue
		}
		if o.Cover {
			if o.OK() {
				ue.Covers++
			} else if o.Res.Status != "unsat" {
				// undecided vacuity guard (solver gave up): not a refutation of reachability; reported, not an alarm
				ue.SoftCovers = append(ue.SoftCovers, o.Name+" (undecided: "+o.Res.Status+")")
			} else {
				ue.Failed = append(ue.Failed, o.Name)
				cr.viol = append(cr.viol, violation{Obligation: o.Name, Kind: "vacuity", Unit: full, Detail: "cover obligation not satisfiable (" + o.Res.Status + "): the contract or an invariant is contradictory or the code is unreachable"})
			}
			continue
		}
		if o.Kind == "canary" {
			if !o.OK() && !deadReturn(rep.Obls, o) {
				ue.Failed = append(ue.Failed, o.Name)
				cr.viol = append(cr.viol, violation{Obligation: o.Name, Kind: "vacuity", Unit: full, Detail: "`false` is provable at this return: the assumptions on this path (contracts, invariants or a modelling fact) contradict each other, every obligation after the contradiction is proved for free"})
			}
			continue
		}
		if o.Kind == "variant.auto" {
			continue // candidate variants belong to the termination sweep (C10), where only the discharged ones are claimed
		}
		if con := cr.prog.Contracts[full]; con != nil && con.Sweep {
			// partial ("sweep") contract: only the contract's own clauses are claimed, not the safety obligations
			switch o.Kind {
			case "post", "assert", "inv.init", "inv.keep", "step", "variant", "call.pre", "frame":
			default:
				continue
			}
		}
		ue.Obligations++
		cr.nObl++
		cr.allNames = append(cr.allNames, o.Name)
		cr.solverTime += o.Res.Time
		slows = append(slows, slow{o.Name, o.Res.Time})
		if o.OK() {
			slowLog(cr.prop.ID, o.Name, o.Res.Solver, o.Res.Time)
		}
		if o.OK() {
			ue.Discharged++
			cr.nOK++
			cr.byBackend[o.Res.Solver]++
			if len(cr.samples) < 6 && o.Res.Solver != "simplifier" && (o.Kind == "post" || o.Kind == "inv.keep" || o.Kind == "bounds.idx" || o.Kind == "frame") {
				cr.samples = append(cr.samples, map[string]string{"obligation": o.Name, "kind": o.Kind, "goal": clipS(o.Goal.String(), 400), "status": "unsat (discharged by " + o.Res.Solver + ")"})
			}
			continue
		}
		ue.Failed = append(ue.Failed, o.Name)
		cr.handleFailure(full, rep, o)
	}
	sort.Slice(slows, func(i, j int) bool { return slows[i].t > slows[j].t })
	for i := 0; i < len(slows) && i < 2; i++ {
		cr.slowest = append(cr.slowest, fmt.Sprintf("%s %.2fs", slows[i].n, slows[i].t))
	}
	if ue.Obligations == 0 {
		cr.viol = append(cr.viol, violation{Obligation: rep.Unit + "#count", Kind: "vacuity", Unit: full, Detail: "zero obligations generated"})
	}
	cr.units = append(cr.units, ue)
}

func loadRegistry(id string) map[string]bool {
	b, err := os.ReadFile(filepath.Join(verifDir, "registry", id+".json"))
	if err != nil {
		return nil
	}
	var r struct {
		Obligations []string `json:"obligations"`
	}
	json.Unmarshal(b, &r)
	m := map[string]bool{}
	for _, o := range r.Obligations {
		m[o] = true
	}
	return m
}

// knownFindingFor: an OPEN known finding of this property whose match pattern covers the obligation name.
func (cr *checkRun) knownFindingFor(name string) *KnownFinding {
	for _, kf := range loadKnownFindings() {
		if kf.Status == "open" && kf.Property == cr.prop.ID && kf.Match != "" {
			if ok, _ := regexp.MatchString(kf.Match, name); ok {
				k := kf
				return &k
			}
		}
	}
	return nil
}

// foreignFinding: the obligation belongs to an open known finding of ANOTHER property (the same function is a unit of
// several checks); it is that property's business and is left out here.
func (cr *checkRun) foreignFinding(name string) bool {
	for _, kf := range loadKnownFindings() {
		if kf.Status == "open" && kf.Property != cr.prop.ID && kf.Match != "" {
			if ok, _ := regexp.MatchString(kf.Match, name); ok {
				return true
			}
		}
	}
	return false
}

func (cr *checkRun) handleFailure(full string, rep *FuncReport, o *Oblig) {
	if kf := cr.knownFindingFor(o.Name); kf != nil {
		cr.nObl--
		cr.knownHit[kf.ID] = o.Name
		return
	}
	if cr.registry == nil {
		cr.registry = loadRegistry(cr.prop.ID)
		if cr.registry == nil {
			cr.registry = map[string]bool{"$none": true}
		}
	}
	claimed := cr.registry[o.Name]
	if !claimed {
		for n := range cr.registry {
			if stableOblKey(n) == stableOblKey(o.Name) && stableOblKey(n) != n {
				claimed = true // the same clause at the same return, only the returned expression's text changed
			}
		}
	}
	// in a unit under FULL contract every obligation is part of the claim: one the solver REFUTES (a model exists under
	// the unit's own preconditions and its callees' contracts) is a violation whether or not its name is registered -
	// typically an index or slice expression of an edited statement; one the solver merely fails to decide is undecided
	refutedClause := o.Res.Status == "sat"
	if !cr.registry["$none"] && !claimed && !refutedClause {
		// an obligation produced by changed code that is not part of the claimed set: a violation only if it replays
		rp := replayObligation(cr, full, o)
		if !rp.reproduced {
			cr.undecided = append(cr.undecided, o.Name+" ("+o.Res.Status+"; not in the claimed registry, no reproducing input)")
			cr.nObl-- // not part of the claimed set
			fmt.Printf("UNDECIDED (not claimed, not counted): %s %s\n", o.Name, o.Res.Status)
			return
		}
		cr.viol = append(cr.viol, violation{Obligation: o.Name, Kind: o.Kind, Unit: full, Detail: o.Res.Status, Replay: rp.path, Reproduced: true, Input: rp.input})
		return
	}
	v := violation{Obligation: o.Name, Kind: o.Kind, Unit: full, Detail: fmt.Sprintf("%s (%s)", o.Res.Status, strings.Join(o.Res.Tried, " "))}
	rp := replayObligation(cr, full, o)
	v.Replay = rp.path
	v.Reproduced = rp.reproduced
	v.Input = rp.input
	cr.viol = append(cr.viol, v)
}

func (cr *checkRun) runBounded(b BoundedUnit) {
	if b.Tier != "" && b.Tier != cr.tier {
		return
	}
	n := b.QuickN
	budget := 0 * time.Second
	if cr.tier == "thorough" {
		n = b.ThoroughN
	}
	full := b.Harness
	r := runBoundedParallel(cr.prog, full, n, 16, budget)
	cr.bounded = append(cr.bounded, r)
	kfs := loadKnownFindings()
	if r.Error != "" {
		cr.viol = append(cr.viol, violation{Obligation: full + "#bounded", Kind: "bounded", Unit: full, Detail: "bounded exploration failed: " + r.Error})
		return
	}
	if len(r.Unsupported) > 0 {
		var ks []string
		for k, c := range r.Unsupported {
			ks = append(ks, fmt.Sprintf("%s (x%d)", k, c))
		}
		sort.Strings(ks)
		cr.viol = append(cr.viol, violation{Obligation: full + "#bounded-complete", Kind: "bounded", Unit: full, Detail: "paths abandoned (the bounded check is incomplete): " + strings.Join(ks, "; ")})
	}
	if r.Paths == 0 || r.Passed == 0 {
		cr.viol = append(cr.viol, violation{Obligation: full + "#bounded-vacuity", Kind: "vacuity", Unit: full, Detail: "no path passed"})
	}
	for _, bv := range r.Violations {
		matched := false
		desc := bv.Msg + " " + fmtInputs(bv.Inputs)
		for _, kf := range kfs {
			if kf.Status == "open" && kf.Property == cr.prop.ID && kf.Match != "" {
				if ok, _ := regexp.MatchString(kf.Match, desc); ok {
					matched = true
				}
			}
		}
		if matched {
			continue
		}
		v := violation{Obligation: shortName(full) + "#bounded(" + strconv.Itoa(n) + ")", Kind: "bounded", Unit: full, Detail: bv.Msg, Input: fmtInputs(bv.Inputs)}
		rp := replayBounded(cr, full, bv)
		v.Replay, v.Reproduced = rp.path, rp.reproduced
		cr.viol = append(cr.viol, v)
		if len(cr.viol) > 12 {
			break
		}
	}
}

func shortName(full string) string { return full[strings.LastIndex(full, "/")+1:] }

func fmtInputs(m map[string]string) string {
	var ks []string
	for k := range m {
		ks = append(ks, k)
	}
	sort.Strings(ks)
	var parts []string
	for _, k := range ks {
		parts = append(parts, k+"="+m[k])
	}
	return strings.Join(parts, " ")
}

func (cr *checkRun) finish() int {
	p := cr.prop
	// known findings: canaries must still fail while open
	for _, kf := range loadKnownFindings() {
		if kf.Property != p.ID {
			continue
		}
		if kf.Status == "open" {
			still := "(listed)"
			if hit, ok := cr.knownHit[kf.ID]; ok {
				still = "(obligation " + hit + " still fails)"
			} else if kf.Match != "" && kf.Canary == "" {
				still = "(its obligation did not fail in this run)"
			}
			if kf.Canary != "" && cr.prog != nil {
				r, _ := exploreBounded(cr.prog, kf.Canary, 2, nil, 0, time.Time{})
				if r.NViol > 0 {
					still = "(canary " + shortName(kf.Canary) + " still fails: " + fmtInputs(r.Violations[0].Inputs) + ")"
				} else {
					still = "(canary " + shortName(kf.Canary) + " no longer fails: the finding seems repaired; update known_findings.json)"
				}
			}
			fmt.Printf("KNOWN-FINDING: property=%s %s: %s %s\n", p.ID, kf.ID, kf.What, still)
			cr.known = append(cr.known, kf.ID+": "+kf.What+" "+still)
		}
	}
	exit := 0
	seen := map[string]bool{}
	printed := 0
	for _, v := range cr.viol {
		if seen[v.Obligation] {
			continue
		}
		seen[v.Obligation] = true
		exit = 1
		printed++
		if printed > 6 {
			continue
		}
		if v.Replay == "" {
			v.Replay = writeReplayFile(cr, v, nil)
		}
		line := fmt.Sprintf("VIOLATION property=%s replay=%s obligation=%q kind=%s %s", p.ID, v.Replay, v.Obligation, v.Kind, clipS(v.Detail, 300))
		if v.Reproduced {
			line += " input: " + clipS(v.Input, 300)
		} else {
			line += " no-failing-input-found"
		}
		fmt.Println(line)
	}
	if printed > 6 {
		fmt.Printf("(%d further failed obligations not printed; all are listed in the evidence file)\n", printed-6)
	}
	cr.writeEvidence(exit)
	if exit == 0 && os.Getenv("GOVC_WRITE_REGISTRY") != "" {
		sort.Strings(cr.allNames)
		b, _ := json.MarshalIndent(map[string]interface{}{"property": p.ID, "obligations": cr.allNames}, "", " ")
		os.MkdirAll(filepath.Join(verifDir, "registry"), 0o755)
		os.WriteFile(filepath.Join(verifDir, "registry", p.ID+".json"), b, 0o644)
	}
	if exit == 0 {
		fmt.Printf("OK property=%s tier=%s: %d/%d obligations discharged", p.ID, cr.tier, cr.nOK, cr.nObl)
		for _, b := range cr.bounded {
			fmt.Printf("; bounded %s N=%d: %d paths, %d passed, %d excluded", shortName(b.Harness), b.N, b.Paths, b.Passed, b.Excluded)
		}
		fmt.Printf(" (%.1fs)\n", time.Since(cr.t0).Seconds())
	}
	return exit
}

func (cr *checkRun) writeEvidence(exit int) {
	p := cr.prop
	trusted := append([]string{
		"govc itself (translation of the typed Go AST of /repo's working tree into verification conditions), go/types, go/packages (x/tools v0.29.0)",
		"SMT solvers z3 5.1.0 (z3-new), cvc5 1.0.3, z3 4.8.12: an `unsat` answer is accepted as a proof",
		"A-int: integers are mathematical; every signed machine-integer operation carries a discharged no-overflow obligation; unsigned/byte arithmetic is modular",
		"A-mem: slices are (array, offset, len, cap) over per-element-type memories; fresh allocations are disjoint from existing arrays; no unsafe; allocation sizes < 2^40",
	}, p.Trusted...)
	var assumed []string
	seenA := map[string]bool{}
	for _, u := range cr.units {
		for _, a := range u.AssumedCallees {
			if !seenA[a] {
				seenA[a] = true
				verified := false
				for _, pu := range allVerifiedUnits() {
					if pu == a {
						verified = true
					}
				}
				c := cr.prog.Contracts[a]
				kind := "callee contract (verified as its own unit in this framework)"
				if !verified {
					kind = "ASSUMED contract (not verified against source)"
				}
				if c != nil && c.Inline {
					kind = "inlined callee"
				}
				assumed = append(assumed, a+": "+kind)
			}
		}
	}
	sort.Strings(assumed)
	var assumptions []string
	assumptions = append(assumptions, trusted...)
	assumptions = append(assumptions, assumed...)
	assumptions = append(assumptions, p.Notes...)
	cov := map[string]interface{}{
		"obligations":              cr.nObl,
		"discharged":               cr.nOK,
		"checker_cmd":              fmt.Sprintf("/verif/check %s --tier %s   (govc: VC generation from /repo with -tags=verif, then z3-new/cvc5/z3 per obligation)", p.ID, cr.tier),
		"trusted_base":             trusted,
		"functions_under_contract": cr.units,
		"by_backend":               cr.byBackend,
		"solver_time_s":            cr.solverTime,
		"slowest":                  cr.slowest,
		"samples":                  cr.samples,
		"callee_contracts":         assumed,
		"known_findings":           cr.known,
		"undecided_new_obligations": cr.undecided,
	}
	if len(cr.bounded) > 0 {
		var bs []map[string]interface{}
		for _, b := range cr.bounded {
			bs = append(bs, map[string]interface{}{
				"label": "BOUNDED (not counted in obligations/discharged): complete symbolic path enumeration of the harness for all inputs up to the bound",
				"harness": b.Harness, "bound_len": b.N, "paths": b.Paths, "paths_passed": b.Passed, "paths_outside_domain": b.Excluded,
				"violating_paths": b.NViol, "abandoned_paths": b.Unsupported, "residual_goals": b.Goals,
				"residual_goals_by_vertex_evaluation": b.GoalsLinear, "residual_goals_by_solver": b.GoalsSolver,
				"interpreter_steps": b.Steps, "max_decisions_on_a_path": b.MaxDepth, "seconds": b.Seconds, "sample_paths": b.Samples,
			})
			for _, s := range b.Samples {
				if len(cr.samples) < 10 {
					cr.samples = append(cr.samples, map[string]string{"bounded_path": s, "harness": shortName(b.Harness)})
				}
			}
		}
		cov["bounded"] = bs
		cov["samples"] = cr.samples
	}
	if len(cr.custom) > 0 {
		cov["custom"] = cr.custom
	}
	if len(cr.samples) == 0 {
		cov["samples"] = []interface{}{"(no sample recorded)"}
	}
	ev := map[string]interface{}{
		"property_id": p.ID,
		"tier":        cr.tier,
		"seed":        cr.seed,
		"level":       "proof",
		"coverage":    cov,
		"assumptions": assumptions,
		"wall_s":      time.Since(cr.t0).Seconds(),
		"violations":  len(cr.viol),
	}
	if cr.nObl == 0 || cr.nOK == 0 {
		// schema needs >= 1 for a proof-level file; a run with nothing discharged is reported as "other"
		ev["level"] = "other"
		cov["explanation"] = "no obligation was discharged in this run (see violations)"
	}
	b, _ := json.MarshalIndent(ev, "", " ")
	os.MkdirAll(filepath.Join(verifDir, "evidence"), 0o755)
	os.WriteFile(filepath.Join(verifDir, "evidence", p.ID+".json"), b, 0o644)
}

func allVerifiedUnits() []string {
	var out []string
	for _, p := range props {
		out = append(out, p.Units...)
	}
	return out
}

// deadReturn: the return a canary belongs to is already unreachable by the plain (quantifier-free) facts - its soft
// reachability cover is unsat, typically a defensive return excluded by a precondition. That is reported with the soft
// covers; the canary is about contradictions the covers cannot see.
func deadReturn(obls []*Oblig, canary *Oblig) bool {
	want := strings.Replace(strings.TrimSuffix(canary.Name, ":false-not-provable"), "#canary@", "#cover@", 1) + ":reachable"
	for _, o := range obls {
		if o.Cover && o.Name == want {
			return o.Res != nil && o.Res.Status == "unsat"
		}
	}
	return false
}
