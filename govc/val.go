package main

// Values: every Go value is a typed vector of SMT terms ("components").

import (
	"regexp"
	"fmt"
	"go/types"
	"math/big"
	"strings"
)

type Comp struct {
	Path string
	Sort string
}

type Val struct {
	T types.Type
	C []*Term
}

func (v Val) IsZeroVal() bool { return v.T == nil }

type Kind int

const (
	KInt Kind = iota
	KBool
	KString
	KSlice
	KArray
	KStruct
	KPtr
	KMap
	KIface
	KFunc
	KFloat
	KChan
	KTuple
	KOther
)

func kindOf(t types.Type) Kind {
	if t == nil {
		return KOther
	}
	switch u := t.Underlying().(type) {
	case *types.Basic:
		info := u.Info()
		switch {
		case info&types.IsBoolean != 0:
			return KBool
		case info&types.IsInteger != 0:
			return KInt
		case info&types.IsString != 0:
			return KString
		case info&types.IsFloat != 0, info&types.IsComplex != 0:
			return KFloat
		case u.Kind() == types.UnsafePointer:
			return KOther
		case u.Kind() == types.UntypedNil:
			return KOther
		}
		return KOther
	case *types.Slice:
		return KSlice
	case *types.Array:
		return KArray
	case *types.Struct:
		return KStruct
	case *types.Pointer:
		return KPtr
	case *types.Map:
		return KMap
	case *types.Interface:
		return KIface
	case *types.Signature:
		return KFunc
	case *types.Chan:
		return KChan
	case *types.Tuple:
		return KTuple
	}
	return KOther
}

var layoutCache = map[string][]Comp{}

var typeKeyCache = map[types.Type]string{}
var byteWord = regexp.MustCompile(`\bbyte\b`)
var runeWord = regexp.MustCompile(`\brune\b`)

func typeKey(t types.Type) string {
	if k, ok := typeKeyCache[t]; ok {
		return k
	}
	k := types.TypeString(t, func(p *types.Package) string {
		path := p.Path()
		path = strings.TrimPrefix(path, "github.com/tdewolff/")
		return path
	})
	// byte/uint8 and rune/int32 are the same types
	k = byteWord.ReplaceAllString(k, "uint8")
	k = runeWord.ReplaceAllString(k, "int32")
	typeKeyCache[t] = k
	return k
}

func layout(t types.Type) []Comp {
	key := typeKey(t)
	if l, ok := layoutCache[key]; ok {
		return l
	}
	var l []Comp
	switch kindOf(t) {
	case KInt:
		l = []Comp{{"", SInt}}
	case KBool:
		l = []Comp{{"", SBool}}
	case KString:
		l = []Comp{{".sarr", SInt}, {".soff", SInt}, {".slen", SInt}}
	case KSlice:
		l = []Comp{{".arr", SInt}, {".off", SInt}, {".len", SInt}, {".cap", SInt}}
	case KArray:
		// arrays are modelled as a reference to a fixed-length backing array (value copies are made explicitly)
		l = []Comp{{".aarr", SInt}}
	case KStruct:
		st := t.Underlying().(*types.Struct)
		layoutCache[key] = nil // recursion guard
		for i := 0; i < st.NumFields(); i++ {
			f := st.Field(i)
			for _, c := range layout(f.Type()) {
				l = append(l, Comp{"." + f.Name() + c.Path, c.Sort})
			}
		}
	case KPtr:
		l = []Comp{{".parr", SInt}, {".pidx", SInt}}
	case KMap:
		l = []Comp{{".map", SInt}}
	case KIface:
		l = []Comp{{".dyn", SInt}, {".ival", SInt}}
	case KFunc:
		l = []Comp{{".fn", SInt}}
	case KFloat:
		l = []Comp{{".flt", "Flt"}}
	case KChan:
		l = []Comp{{".chan", SInt}}
	default:
		l = []Comp{{".opq", SInt}}
	}
	layoutCache[key] = l
	return l
}

// fieldRange returns [lo,hi) component range and type of field name in struct type t.
func fieldRange(t types.Type, name string) (int, int, types.Type, bool) {
	st, ok := t.Underlying().(*types.Struct)
	if !ok {
		return 0, 0, nil, false
	}
	off := 0
	for i := 0; i < st.NumFields(); i++ {
		f := st.Field(i)
		n := len(layout(f.Type()))
		if f.Name() == name {
			return off, off + n, f.Type(), true
		}
		off += n
	}
	return 0, 0, nil, false
}

var intRangeCache [64][2]*big.Int

func intRangeOf(t types.Type) (lo, hi *big.Int) {
	b, ok := t.Underlying().(*types.Basic)
	if !ok {
		return nil, nil
	}
	k := int(b.Kind())
	if k >= 0 && k < len(intRangeCache) {
		if c := intRangeCache[k]; c[0] != nil {
			return c[0], c[1]
		}
		lo, hi = intRangeOfSlow(b)
		if lo != nil {
			intRangeCache[k] = [2]*big.Int{lo, hi}
		}
		return lo, hi
	}
	return intRangeOfSlow(b)
}

func intRangeOfSlow(b *types.Basic) (lo, hi *big.Int) {
	pow := func(n uint) *big.Int { return new(big.Int).Lsh(big.NewInt(1), n) }
	signed := func(bits uint) (*big.Int, *big.Int) {
		return new(big.Int).Neg(pow(bits - 1)), new(big.Int).Sub(pow(bits-1), big.NewInt(1))
	}
	unsigned := func(bits uint) (*big.Int, *big.Int) {
		return big.NewInt(0), new(big.Int).Sub(pow(bits), big.NewInt(1))
	}
	switch b.Kind() {
	case types.Int, types.Int64, types.UntypedInt, types.UntypedRune:
		return signed(64)
	case types.Int8:
		return signed(8)
	case types.Int16:
		return signed(16)
	case types.Int32:
		return signed(32)
	case types.Uint, types.Uint64, types.Uintptr:
		return unsigned(64)
	case types.Uint8:
		return unsigned(8)
	case types.Uint16:
		return unsigned(16)
	case types.Uint32:
		return unsigned(32)
	}
	return nil, nil
}

func isUnsigned(t types.Type) bool {
	b, ok := t.Underlying().(*types.Basic)
	return ok && b.Info()&types.IsUnsigned != 0
}

func inRange(x *Term, t types.Type) *Term {
	lo, hi := intRangeOf(t)
	if lo == nil {
		return True
	}
	return And(Le(IntBig(lo), x), Le(x, IntBig(hi)))
}

// wrap reduces x into the range of unsigned type t (mod 2^k); for signed types returns x unchanged.
func wrapTo(x *Term, t types.Type) *Term {
	lo, hi := intRangeOf(t)
	if lo == nil {
		return x
	}
	if x.IsConst() && x.K.Cmp(lo) >= 0 && x.K.Cmp(hi) <= 0 {
		return x
	}
	m := new(big.Int).Add(new(big.Int).Sub(hi, lo), big.NewInt(1))
	if lo.Sign() == 0 {
		return EMod(x, IntBig(m))
	}
	// signed wrap: ((x - lo) mod m) + lo
	return Add(EMod(Sub(x, IntBig(lo)), IntBig(m)), IntBig(lo))
}

// ---- slice / string / pointer accessors

func (v Val) Arr() *Term { return v.C[0] }
func (v Val) Off() *Term { return v.C[1] }
func (v Val) Len() *Term { return v.C[2] }
func (v Val) Cap() *Term {
	if kindOf(v.T) == KString {
		return v.C[2]
	}
	return v.C[3]
}
func (v Val) Idx() *Term { return v.C[1] } // pointer index
func (v Val) T0() *Term  { return v.C[0] }

func mkVal(t types.Type, c ...*Term) Val { return Val{T: t, C: c} }

func elemTypeOf(t types.Type) types.Type {
	switch u := t.Underlying().(type) {
	case *types.Slice:
		return u.Elem()
	case *types.Array:
		return u.Elem()
	case *types.Pointer:
		return u.Elem()
	case *types.Basic:
		if u.Info()&types.IsString != 0 {
			return types.Typ[types.Uint8]
		}
	case *types.Map:
		return u.Elem()
	}
	return nil
}

func iteVal(c *Term, a, b Val) Val {
	if len(a.C) != len(b.C) {
		panic(fmt.Sprintf("iteVal layout mismatch %v vs %v", a.T, b.T))
	}
	out := make([]*Term, len(a.C))
	for i := range a.C {
		out[i] = Ite(c, a.C[i], b.C[i])
	}
	t := a.T
	return Val{T: t, C: out}
}

func eqVal(a, b Val) *Term {
	if len(a.C) != len(b.C) {
		panic(fmt.Sprintf("eqVal layout mismatch %v vs %v", a.T, b.T))
	}
	var cs []*Term
	for i := range a.C {
		cs = append(cs, Eq(a.C[i], b.C[i]))
	}
	return And(cs...)
}

func sameVal(a, b Val) bool {
	if len(a.C) != len(b.C) {
		return false
	}
	for i := range a.C {
		if a.C[i] != b.C[i] {
			return false
		}
	}
	return true
}

func heapNameFor(elem types.Type, c Comp) string {
	return "Mem[" + typeKey(elem) + "]" + c.Path
}
func heapSort(c Comp) string { return ArrSortOf(ArrSortOf(c.Sort)) }

func zeroTerm(sortS string) *Term {
	switch sortS {
	case SInt:
		return Zero
	case SBool:
		return False
	case "Flt":
		return App("flt_zero", "Flt")
	}
	if strings.HasPrefix(sortS, "(Array") {
		return ConstArr(sortS, zeroTerm(elemSort(sortS)))
	}
	return Var("zero_"+sortS, sortS)
}

func zeroVal(t types.Type) Val {
	l := layout(t)
	c := make([]*Term, len(l))
	for i, x := range l {
		c[i] = zeroTerm(x.Sort)
	}
	return Val{T: t, C: c}
}
