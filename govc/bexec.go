package main

// Bounded mode: path-forking symbolic interpreter over the typed AST (concrete control, symbolic scalars).

import (
	"sort"
	"fmt"
	"go/ast"
	"go/constant"
	"go/token"
	"go/types"
	"math/big"
	"strings"
)

type BVal interface{}

type BArr struct {
	cells  []BVal
	frozen bool
	id     int
	guard  int // number of trailing guard cells (beyond cap given to the program)
}
type BSlice struct {
	arr           *BArr
	off, len, cap int
	str           bool
	isNil         bool
}
type BStruct struct {
	f []BVal
}
type BVar struct {
	v BVal
}
type BPtr struct {
	v   *BVar
	arr *BArr
	idx int
}
type BNil struct{}
type BTuple []BVal
type BFunc struct {
	fi   *FuncInfo
	lit  *ast.FuncLit
	fr   *bframe
	recv BVal
	hasRecv bool
	builtin string
}
type BIface struct {
	t types.Type
	v BVal
}
type BMap struct {
	keys []string
	m    map[string]BVal
}

type bframe struct {
	vars   map[types.Object]*BVar
	parent *bframe
	info   *types.Info
	fi     *FuncInfo
	results []*BVar
	resObjs []types.Object
	deferred []func()
}

func (fr *bframe) lookup(o types.Object) *BVar {
	for f := fr; f != nil; f = f.parent {
		if v, ok := f.vars[o]; ok {
			return v
		}
	}
	return nil
}

type decision struct{ choice, n int }

type pathAbort struct {
	kind   string // "excluded", "violation", "unsupported", "unwind"
	msg    string
}

type BX struct {
	prog      *Program
	syms      map[string]*Sym
	symOrder  []string
	tbls      map[string]*tblFn
	decisions []decision
	depth     int
	steps     int
	maxSteps  int
	residual  []*Term
	goals     []*Term // residual goals of this path (to the solver)
	globals   map[*types.Var]*BVar
	strConsts map[string]*BArr
	arrN      int
	callDepth int
	unitName  string
	tblN      int
	initDone  map[*types.Var]bool
	splitAt   int
}

func newBX(prog *Program) *BX {
	return &BX{prog: prog, syms: map[string]*Sym{}, tbls: map[string]*tblFn{}, globals: map[*types.Var]*BVar{}, strConsts: map[string]*BArr{}, maxSteps: 2000000}
}

func (bx *BX) abort(kind, format string, a ...interface{}) {
	panic(pathAbort{kind, fmt.Sprintf(format, a...)})
}

func (bx *BX) choose(n int) int {
	if n <= 1 {
		return 0
	}
	if bx.depth < len(bx.decisions) {
		d := bx.decisions[bx.depth]
		bx.depth++
		if d.n != n {
			panic(fmt.Sprintf("nondeterministic replay: decision %d had %d choices, now %d", bx.depth-1, d.n, n))
		}
		return d.choice
	}
	if bx.splitAt > 0 && bx.depth >= bx.splitAt {
		panic("split")
	}
	bx.decisions = append(bx.decisions, decision{0, n})
	bx.depth++
	return 0
}

// nextPath advances the decision vector; false when exploration is complete.
func (bx *BX) nextPath() bool {
	for len(bx.decisions) > 0 {
		last := &bx.decisions[len(bx.decisions)-1]
		if last.choice+1 < last.n {
			last.choice++
			return true
		}
		bx.decisions = bx.decisions[:len(bx.decisions)-1]
	}
	return false
}

func (bx *BX) newSym(name string, dom []ival, isByte bool) *Term {
	s := &Sym{name: name, dom: dom, isByte: isByte}
	bx.syms[name] = s
	bx.symOrder = append(bx.symOrder, name)
	return Var(name, SInt)
}

func (bx *BX) resetPath() {
	bx.syms = map[string]*Sym{}
	bx.symOrder = nil
	bx.depth = 0
	bx.steps = 0
	bx.residual = nil
	bx.goals = nil
	bx.arrN = 0
	bx.callDepth = 0
}

// decide resolves a boolean term to a concrete truth value, forking/narrowing domains as needed.
func (bx *BX) decide(t *Term) bool {
	for iter := 0; iter < 10000; iter++ {
		t = bx.norm(t)
		if t.IsTrue() {
			return true
		}
		if t.IsFalse() {
			return false
		}
		fs := bx.freeSyms(t)
		if len(fs) == 0 {
			c, ok := bx.evalC(t, nil)
			if ok && c.isBool {
				return c.b
			}
			bx.abort("unsupported", "cannot evaluate closed condition %s", t)
		}
		if len(fs) == 1 {
			s := fs[0]
			td, fd, ok := bx.splitByCond(t, s)
			if ok {
				if len(fd) == 0 {
					return true
				}
				if len(td) == 0 {
					return false
				}
				if bx.choose(2) == 0 {
					s.dom = td
					return true
				}
				s.dom = fd
				return false
			}
		}
		// several symbols, linear condition: decide by extremes, else split one symbol at the thresholds
		if r, done := bx.decideLinear(t); done {
			return r == 1
		} else if r == 2 {
			continue // a domain was narrowed; re-examine
		}
		// several symbols (or non-linear in a wide one): concretise the smallest finite one
		var best *Sym
		for _, s := range fs {
			if s.size().Cmp(big.NewInt(4096)) > 0 {
				continue
			}
			if best == nil || s.size().Cmp(best.size()) < 0 {
				best = s
			}
		}
		if best == nil {
			// residual constraint: fork without narrowing
			if bx.choose(2) == 0 {
				bx.residual = append(bx.residual, t)
				return true
			}
			bx.residual = append(bx.residual, Not(t))
			return false
		}
		vals := best.values(5000)
		k := bx.choose(len(vals))
		best.dom = []ival{{vals[k], vals[k]}}
	}
	bx.abort("unsupported", "decide did not converge")
	return false
}

// concInt forces an integer term to a concrete value (forking over its feasible values).
func (bx *BX) concInt(t *Term, what string) int64 {
	for iter := 0; iter < 100; iter++ {
		t = bx.norm(t)
		if v, ok := t.Int64(); ok {
			return v
		}
		if t.IsConst() {
			bx.abort("violation", "%s out of int64 range: %s", what, t)
		}
		fs := bx.freeSyms(t)
		if len(fs) == 0 {
			c, ok := bx.evalC(t, nil)
			if ok && !c.isBool && c.i.IsInt64() {
				return c.i.Int64()
			}
			bx.abort("unsupported", "cannot evaluate %s", t)
		}
		var best *Sym
		for _, s := range fs {
			if best == nil || s.size().Cmp(best.size()) < 0 {
				best = s
			}
		}
		if best.size().Cmp(big.NewInt(4096)) > 0 {
			bx.abort("unsupported", "%s is symbolic with an unbounded domain (%s in %s)", what, best.name, domString(best.dom))
		}
		vals := best.values(5000)
		k := bx.choose(len(vals))
		best.dom = []ival{{vals[k], vals[k]}}
	}
	bx.abort("unsupported", "concInt did not converge")
	return 0
}

// wrapInt reduces t into the range of integer type typ with Go's wrap-around semantics (exactly, by forking if needed).
func (bx *BX) wrapInt(t *Term, typ types.Type) *Term {
	lo, hi := intRangeOf(typ)
	if lo == nil {
		return t
	}
	if t.IsConst() && t.K.Cmp(lo) >= 0 && t.K.Cmp(hi) <= 0 {
		return t
	}
	m := new(big.Int).Add(new(big.Int).Sub(hi, lo), big.NewInt(1))
	for iter := 0; iter < 64; iter++ {
		t = bx.norm(t)
		if t.IsConst() {
			v := new(big.Int).Sub(t.K, lo)
			v.Mod(v, m)
			v.Add(v, lo)
			return IntBig(v)
		}
		bl, bh := bx.bounds(t)
		if bl != nil && bl.Cmp(lo) >= 0 && bh.Cmp(hi) <= 0 {
			return t
		}
		if bx.decide(And(Le(IntBig(lo), t), Le(t, IntBig(hi)))) {
			return t
		}
		if bx.decide(Lt(IntBig(hi), t)) {
			t = Sub(t, IntBig(m))
		} else {
			t = Add(t, IntBig(m))
		}
	}
	bx.abort("unsupported", "wrapInt did not converge")
	return t
}

// ---- values helpers

func (bx *BX) newArr(n int, zero func() BVal) *BArr {
	bx.arrN++
	a := &BArr{cells: make([]BVal, n), id: bx.arrN}
	for i := range a.cells {
		a.cells[i] = zero()
	}
	return a
}

func (bx *BX) strConst(s string) BSlice {
	a, ok := bx.strConsts[s]
	if !ok {
		a = &BArr{cells: make([]BVal, len(s)), frozen: true, id: -len(bx.strConsts) - 1}
		for i := 0; i < len(s); i++ {
			a.cells[i] = IntK(int64(s[i]))
		}
		bx.strConsts[s] = a
	}
	return BSlice{arr: a, off: 0, len: len(s), cap: len(s), str: true}
}

func (bx *BX) zero(t types.Type) BVal {
	switch kindOf(t) {
	case KInt:
		return Zero
	case KBool:
		return False
	case KString:
		return bx.strConst("")
	case KSlice:
		return BSlice{isNil: true}
	case KStruct:
		st := t.Underlying().(*types.Struct)
		s := &BStruct{f: make([]BVal, st.NumFields())}
		for i := range s.f {
			s.f[i] = bx.zero(st.Field(i).Type())
		}
		return s
	case KArray:
		at := t.Underlying().(*types.Array)
		return bx.newArr(int(at.Len()), func() BVal { return bx.zero(at.Elem()) })
	case KFloat:
		return App("flt_zero", "Flt")
	}
	return BNil{}
}

// copyVal makes value-semantics copies (structs, arrays).
func (bx *BX) copyVal(v BVal) BVal {
	switch x := v.(type) {
	case *BStruct:
		n := &BStruct{f: make([]BVal, len(x.f))}
		for i, f := range x.f {
			n.f[i] = bx.copyVal(f)
		}
		return n
	case *BArr:
		bx.arrN++
		n := &BArr{cells: make([]BVal, len(x.cells)), id: bx.arrN}
		for i, c := range x.cells {
			n.cells[i] = bx.copyVal(c)
		}
		return n
	}
	return v
}

func (bx *BX) tick() {
	bx.steps++
	if bx.steps > bx.maxSteps {
		bx.abort("unwind", "step budget of %d exceeded (possible non-termination)", bx.maxSteps)
	}
}

// ---- expression evaluation

func (bx *BX) typeOf(fr *bframe, e ast.Expr) types.Type {
	if tv, ok := fr.info.Types[e]; ok {
		return tv.Type
	}
	if id, ok := e.(*ast.Ident); ok {
		if o := fr.info.ObjectOf(id); o != nil {
			return o.Type()
		}
	}
	return nil
}

func (bx *BX) constant(t types.Type, v constant.Value) (BVal, bool) {
	switch v.Kind() {
	case constant.Bool:
		return BoolK(constant.BoolVal(v)), true
	case constant.Int:
		bi, ok := new(big.Int).SetString(v.ExactString(), 10)
		if !ok {
			return nil, false
		}
		if kindOf(t) == KFloat {
			return App("flt_const_"+bi.String(), "Flt"), true
		}
		return IntBig(bi), true
	case constant.String:
		return bx.strConst(constant.StringVal(v)), true
	case constant.Float:
		if kindOf(t) == KInt {
			if i, ok := constant.Int64Val(constant.ToInt(v)); ok {
				return IntK(i), true
			}
		}
		return App("flt_const_"+sanitize(v.ExactString()), "Flt"), true
	}
	return nil, false
}

func (bx *BX) eval(fr *bframe, e ast.Expr) BVal {
	bx.tick()
	if tv, ok := fr.info.Types[e]; ok && tv.Value != nil {
		if v, ok := bx.constant(tv.Type, tv.Value); ok {
			return v
		}
	}
	switch x := e.(type) {
	case *ast.ParenExpr:
		return bx.eval(fr, x.X)
	case *ast.Ident:
		return bx.evalIdent(fr, x)
	case *ast.UnaryExpr:
		return bx.evalUnary(fr, x)
	case *ast.BinaryExpr:
		return bx.evalBinary(fr, x)
	case *ast.IndexExpr:
		return bx.evalIndex(fr, x)
	case *ast.SliceExpr:
		return bx.evalSliceExpr(fr, x)
	case *ast.SelectorExpr:
		return bx.evalSelector(fr, x)
	case *ast.StarExpr:
		p := bx.eval(fr, x.X)
		return bx.deref(p)
	case *ast.CallExpr:
		return bx.evalCall(fr, x)
	case *ast.CompositeLit:
		return bx.evalCompositeLit(fr, x, bx.typeOf(fr, x))
	case *ast.FuncLit:
		return &BFunc{lit: x, fr: fr}
	case *ast.TypeAssertExpr:
		v := bx.eval(fr, x.X)
		iv, ok := v.(BIface)
		if !ok {
			bx.abort("unsupported", "type assertion on non-interface value")
		}
		t := bx.typeOf(fr, x)
		if iv.t != nil && types.Identical(iv.t, t) {
			return iv.v
		}
		bx.abort("violation", "type assertion failed")
	}
	bx.abort("unsupported", "expression %T", e)
	return nil
}

func (bx *BX) deref(p BVal) BVal {
	switch x := p.(type) {
	case BPtr:
		if x.v != nil {
			return x.v.v
		}
		if x.arr != nil {
			return x.arr.cells[x.idx]
		}
	case BNil:
		bx.abort("violation", "nil pointer dereference")
	}
	bx.abort("unsupported", "deref of %T", p)
	return nil
}

func (bx *BX) evalIdent(fr *bframe, x *ast.Ident) BVal {
	obj := fr.info.ObjectOf(x)
	switch o := obj.(type) {
	case *types.Var:
		if v := fr.lookup(o); v != nil {
			return v.v
		}
		if o.Pkg() != nil && o.Parent() == o.Pkg().Scope() {
			return bx.global(o).v
		}
		bx.abort("unsupported", "unbound variable %s", x.Name)
	case *types.Nil:
		t := bx.typeOf(fr, x)
		if kindOf(t) == KSlice {
			return BSlice{isNil: true}
		}
		return BNil{}
	case *types.Func:
		if nativeOverride[funcFullName(o)] {
			return &BFunc{builtin: funcFullName(o)}
		}
		if fi, ok := bx.prog.Funcs[funcFullName(o)]; ok {
			return &BFunc{fi: fi}
		}
		return &BFunc{builtin: funcFullName(o)}
	case *types.Const:
		if v, ok := bx.constant(o.Type(), o.Val()); ok {
			return v
		}
	}
	bx.abort("unsupported", "identifier %s", x.Name)
	return nil
}

// global returns the (cached, frozen) value of a package-level variable.
func (bx *BX) global(o *types.Var) *BVar {
	if v, ok := bx.globals[o]; ok {
		return v
	}
	pk := bx.prog.Pkgs[o.Pkg().Path()]
	if pk == nil {
		bx.abort("unsupported", "global %s of unloaded package", o.Name())
	}
	var init ast.Expr
	for _, f := range pk.Syntax {
		for _, d := range f.Decls {
			gd, ok := d.(*ast.GenDecl)
			if !ok || gd.Tok != token.VAR {
				continue
			}
			for _, sp := range gd.Specs {
				vs := sp.(*ast.ValueSpec)
				for i, n := range vs.Names {
					if pk.TypesInfo.Defs[n] == o && len(vs.Values) == len(vs.Names) {
						init = vs.Values[i]
					}
				}
			}
		}
	}
	gfr := &bframe{vars: map[types.Object]*BVar{}, info: pk.TypesInfo}
	var v BVal
	if init == nil {
		v = bx.zero(o.Type())
	} else {
		saveSteps := bx.steps
		v = bx.convert(bx.evalTyped(gfr, init, o.Type()), bx.typeOf(gfr, init), o.Type())
		bx.steps = saveSteps
	}
	bx.freeze(v)
	bv := &BVar{v: v}
	bx.globals[o] = bv
	return bv
}

func (bx *BX) freeze(v BVal) {
	switch x := v.(type) {
	case BSlice:
		if x.arr != nil && !x.arr.frozen {
			x.arr.frozen = true
			for _, c := range x.arr.cells {
				bx.freeze(c)
			}
		}
	case *BArr:
		if !x.frozen {
			x.frozen = true
			for _, c := range x.cells {
				bx.freeze(c)
			}
		}
	case *BStruct:
		for _, f := range x.f {
			bx.freeze(f)
		}
	}
}

func (bx *BX) evalTyped(fr *bframe, e ast.Expr, t types.Type) BVal {
	if cl, ok := e.(*ast.CompositeLit); ok && cl.Type == nil {
		return bx.evalCompositeLit(fr, cl, t)
	}
	return bx.eval(fr, e)
}

func (bx *BX) evalUnary(fr *bframe, x *ast.UnaryExpr) BVal {
	t := bx.typeOf(fr, x)
	switch x.Op {
	case token.NOT:
		return Not(bx.eval(fr, x.X).(*Term))
	case token.SUB:
		v := bx.eval(fr, x.X).(*Term)
		if kindOf(t) == KFloat {
			return App("flt_neg", "Flt", v)
		}
		return bx.wrapInt(Neg(v), t)
	case token.ADD:
		return bx.eval(fr, x.X)
	case token.XOR:
		v := bx.eval(fr, x.X).(*Term)
		return bx.wrapInt(Sub(IntK(-1), v), t)
	case token.AND:
		if cl, ok := unparen(x.X).(*ast.CompositeLit); ok {
			v := bx.evalCompositeLit(fr, cl, bx.typeOf(fr, cl))
			return BPtr{v: &BVar{v: v}}
		}
		switch y := unparen(x.X).(type) {
		case *ast.Ident:
			if o, ok := fr.info.ObjectOf(y).(*types.Var); ok {
				if v := fr.lookup(o); v != nil {
					return BPtr{v: v}
				}
				if o.Pkg() != nil && o.Parent() == o.Pkg().Scope() {
					return BPtr{v: bx.global(o)}
				}
			}
		case *ast.IndexExpr:
			b := bx.eval(fr, y.X)
			i := int(bx.concInt(bx.eval(fr, y.Index).(*Term), "index"))
			switch s := b.(type) {
			case BSlice:
				if i < 0 || i >= s.len {
					bx.abort("violation", "index out of range [%d] with length %d", i, s.len)
				}
				return BPtr{arr: s.arr, idx: s.off + i}
			case *BArr:
				return BPtr{arr: s, idx: i}
			}
		case *ast.SelectorExpr:
			// &x.f : pointer to struct field -> field cells are BVal slots inside BStruct.f
			base := bx.eval(fr, y.X)
			if p, ok := base.(BPtr); ok {
				base = bx.deref(p)
			}
			if st, ok := base.(*BStruct); ok {
				if sel := fr.info.Selections[y]; sel != nil && len(sel.Index()) == 1 {
					return BPtr{arr: &BArr{cells: st.f, id: -999}, idx: sel.Index()[0]}
				}
			}
		}
		bx.abort("unsupported", "address-of")
	}
	bx.abort("unsupported", "unary %s", x.Op)
	return nil
}

func (bx *BX) evalBinary(fr *bframe, x *ast.BinaryExpr) BVal {
	switch x.Op {
	case token.LAND:
		if pureTotal(x.Y) {
			// no side effects and cannot panic: evaluate both sides, one decision later
			return And(bx.eval(fr, x.X).(*Term), bx.eval(fr, x.Y).(*Term))
		}
		if !bx.decide(bx.eval(fr, x.X).(*Term)) {
			return False
		}
		return bx.eval(fr, x.Y)
	case token.LOR:
		if pureTotal(x.Y) {
			return Or(bx.eval(fr, x.X).(*Term), bx.eval(fr, x.Y).(*Term))
		}
		if bx.decide(bx.eval(fr, x.X).(*Term)) {
			return True
		}
		return bx.eval(fr, x.Y)
	}
	l := bx.eval(fr, x.X)
	r := bx.eval(fr, x.Y)
	t := bx.typeOf(fr, x)
	lt := bx.typeOf(fr, x.X)
	switch x.Op {
	case token.EQL, token.NEQ:
		eq := bx.valEq(l, r)
		if x.Op == token.NEQ {
			return Not(eq)
		}
		return eq
	case token.LSS, token.LEQ, token.GTR, token.GEQ:
		if kindOf(lt) == KFloat {
			return App("flt_"+x.Op.String(), SBool, l.(*Term), r.(*Term))
		}
		if kindOf(lt) == KString {
			bx.abort("unsupported", "string ordering")
		}
		a, b := l.(*Term), r.(*Term)
		switch x.Op {
		case token.LSS:
			return Lt(a, b)
		case token.LEQ:
			return Le(a, b)
		case token.GTR:
			return Gt(a, b)
		}
		return Ge(a, b)
	}
	if kindOf(t) == KString && x.Op == token.ADD {
		a, b := l.(BSlice), r.(BSlice)
		arr := bx.newArr(a.len+b.len, func() BVal { return Zero })
		for i := 0; i < a.len; i++ {
			arr.cells[i] = a.arr.cells[a.off+i]
		}
		for i := 0; i < b.len; i++ {
			arr.cells[a.len+i] = b.arr.cells[b.off+i]
		}
		return BSlice{arr: arr, len: a.len + b.len, cap: a.len + b.len, str: true}
	}
	if kindOf(t) == KFloat {
		return App("flt_"+opName(x.Op), "Flt", l.(*Term), r.(*Term))
	}
	return bx.intOp(x.Op, l.(*Term), r.(*Term), t)
}

func (bx *BX) valEq(l, r BVal) *Term {
	switch a := l.(type) {
	case *Term:
		if b, ok := r.(*Term); ok {
			return Eq(a, b)
		}
	case BSlice:
		switch b := r.(type) {
		case BSlice:
			if a.str || b.str {
				if a.len != b.len {
					return False
				}
				var cs []*Term
				for i := 0; i < a.len; i++ {
					cs = append(cs, Eq(a.arr.cells[a.off+i].(*Term), b.arr.cells[b.off+i].(*Term)))
				}
				return And(cs...)
			}
			// slice == nil
			if b.isNil {
				return BoolK(a.isNil)
			}
			if a.isNil {
				return BoolK(b.isNil)
			}
		case BNil:
			return BoolK(a.isNil)
		}
	case BNil:
		switch b := r.(type) {
		case BNil:
			return True
		case BSlice:
			return BoolK(b.isNil)
		case BPtr, *BFunc, BIface, *BMap:
			return False
		}
	case BPtr:
		switch b := r.(type) {
		case BNil:
			return False
		case BPtr:
			return BoolK(a.v == b.v && a.arr == b.arr && a.idx == b.idx)
		}
	case BIface:
		switch b := r.(type) {
		case BNil:
			return False
		case BIface:
			if a.t != nil && b.t != nil && types.Identical(a.t, b.t) {
				return bx.valEq(a.v, b.v)
			}
			return False
		}
	case *BFunc, *BMap:
		if _, ok := r.(BNil); ok {
			return False
		}
	case *BStruct:
		if b, ok := r.(*BStruct); ok {
			var cs []*Term
			for i := range a.f {
				cs = append(cs, bx.valEq(a.f[i], b.f[i]))
			}
			return And(cs...)
		}
	}
	bx.abort("unsupported", "comparison of %T and %T", l, r)
	return nil
}

func (bx *BX) tbl1(name string, arg *Term, sortS string, f func(v int64) (int64, bool)) *Term {
	arg = bx.norm(arg)
	if v, ok := arg.Int64(); ok {
		r, ok := f(v)
		if !ok {
			bx.abort("unsupported", "table function %s undefined at %d", name, v)
		}
		if sortS == SBool {
			return BoolK(r != 0)
		}
		return IntK(r)
	}
	bx.tblN++
	n := fmt.Sprintf("tbl!%s!%d", name, bx.tblN)
	bx.tbls[n] = &tblFn{name: n, f: f, sort: sortS}
	builtinFuns[n] = false
	return App(n, sortS, arg)
}

func (bx *BX) intOp(op token.Token, a, b *Term, t types.Type) *Term {
	a, b = bx.norm(a), bx.norm(b)
	switch op {
	case token.ADD:
		return bx.wrapInt(Add(a, b), t)
	case token.SUB:
		return bx.wrapInt(Sub(a, b), t)
	case token.MUL:
		return bx.wrapInt(Mul(a, b), t)
	case token.QUO, token.REM:
		if bx.decide(Eq(b, Zero)) {
			bx.abort("violation", "integer divide by zero")
		}
		if !b.IsConst() {
			bv := bx.concInt(b, "divisor")
			b = IntK(bv)
		}
		if !a.IsConst() {
			// sign split keeps terms in floor-div form
			if isUnsigned(t) || bx.decide(Le(Zero, a)) {
				if b.K.Sign() > 0 {
					if op == token.QUO {
						return EDiv(a, b)
					}
					return EMod(a, b)
				}
				nb := IntBig(new(big.Int).Neg(b.K))
				if op == token.QUO {
					return Neg(EDiv(a, nb))
				}
				return EMod(a, nb)
			}
			na := Neg(a)
			if b.K.Sign() > 0 {
				if op == token.QUO {
					return Neg(EDiv(na, b))
				}
				return Neg(EMod(na, b))
			}
			nb := IntBig(new(big.Int).Neg(b.K))
			if op == token.QUO {
				return bx.wrapInt(EDiv(na, nb), t)
			}
			return Neg(EMod(na, nb))
		}
		if op == token.QUO {
			return bx.wrapInt(IntBig(new(big.Int).Quo(a.K, b.K)), t)
		}
		return IntBig(new(big.Int).Rem(a.K, b.K))
	}
	// bit operations: constant fold, or table over the single small-domain operand
	if a.IsConst() && b.IsConst() {
		return bx.wrapInt(IntBig(bitOpBig(op, a.K, b.K)), t)
	}
	if b.IsConst() && b.K.IsInt64() {
		k := b.K.Int64()
		return bx.wrapInt(bx.tbl1(opName2(op), a, SInt, func(v int64) (int64, bool) {
			return bitOpBig(op, big.NewInt(v), big.NewInt(k)).Int64(), true
		}), t)
	}
	if a.IsConst() && a.K.IsInt64() {
		k := a.K.Int64()
		return bx.wrapInt(bx.tbl1(opName2(op), b, SInt, func(v int64) (int64, bool) {
			return bitOpBig(op, big.NewInt(k), big.NewInt(v)).Int64(), true
		}), t)
	}
	// both symbolic: concretise the right operand
	bv := bx.concInt(b, "bit-operation operand")
	return bx.intOp(op, a, IntK(bv), t)
}

func opName2(op token.Token) string { return sanitize(op.String()) }

func bitOpBig(op token.Token, a, b *big.Int) *big.Int {
	switch op {
	case token.AND:
		return new(big.Int).And(a, b)
	case token.OR:
		return new(big.Int).Or(a, b)
	case token.XOR:
		return new(big.Int).Xor(a, b)
	case token.AND_NOT:
		return new(big.Int).AndNot(a, b)
	case token.SHL:
		return new(big.Int).Lsh(a, uint(b.Uint64()))
	case token.SHR:
		return new(big.Int).Rsh(a, uint(b.Uint64()))
	}
	panic("bitOpBig " + op.String())
}

func (bx *BX) evalIndex(fr *bframe, x *ast.IndexExpr) BVal {
	b := bx.eval(fr, x.X)
	if m, ok := b.(*BMap); ok {
		if len(m.m) == 0 {
			bx.eval(fr, x.Index)
			return bx.zero(elemTypeOf(bx.typeOf(fr, x.X)))
		}
		k := bx.mapKey(bx.eval(fr, x.Index))
		if v, ok := m.m[k]; ok {
			return v
		}
		return bx.zero(elemTypeOf(bx.typeOf(fr, x.X)))
	}
	if _, ok := b.(BNil); ok && kindOf(bx.typeOf(fr, x.X)) == KMap {
		return bx.zero(elemTypeOf(bx.typeOf(fr, x.X)))
	}
	it := bx.norm(bx.eval(fr, x.Index).(*Term))
	var arr *BArr
	off, ln := 0, 0
	switch s := b.(type) {
	case BSlice:
		arr, off, ln = s.arr, s.off, s.len
	case *BArr:
		arr, off, ln = s, 0, len(s.cells)
	case BPtr:
		if a, ok := bx.deref(s).(*BArr); ok {
			arr, off, ln = a, 0, len(a.cells)
		}
	}
	if arr == nil && ln == 0 {
		if sl, ok := b.(BSlice); ok && (sl.isNil || sl.len == 0) {
			i := bx.concInt(it, "index")
			bx.abort("violation", "index out of range [%d] with length 0", i)
		}
		bx.abort("unsupported", "index on %T", b)
	}
	// symbolic index into a frozen table of scalars: table term
	if !it.IsConst() {
		fs := bx.freeSyms(it)
		lo, hi := bx.bounds(it)
		if len(fs) == 1 && lo != nil && lo.Sign() >= 0 && hi.Cmp(big.NewInt(int64(ln))) < 0 {
			isBool := false
			scalar := true
			for i := 0; i < ln; i++ {
				c, ok := arr.cells[off+i].(*Term)
				if !ok || !(c.IsConst() || c.Op == "bool") {
					scalar = false
					break
				}
				if c.Op == "bool" {
					isBool = true
				}
			}
			if scalar {
				cells, o := append([]BVal{}, arr.cells[off:off+ln]...), 0
				sortS := SInt
				if isBool {
					sortS = SBool
				}
				return bx.tbl1("idx", it, sortS, func(v int64) (int64, bool) {
					if v < 0 || int(v) >= ln {
						return 0, false
					}
					c := cells[o+int(v)].(*Term)
					if c.Op == "bool" {
						if c.B {
							return 1, true
						}
						return 0, true
					}
					return c.K.Int64(), true
				})
			}
		}
	}
	i := int(bx.concInt(it, "index"))
	if i < 0 || i >= ln {
		bx.abort("violation", "index out of range [%d] with length %d", i, ln)
	}
	return arr.cells[off+i]
}

func (bx *BX) evalSliceExpr(fr *bframe, x *ast.SliceExpr) BVal {
	b := bx.eval(fr, x.X)
	var s BSlice
	switch v := b.(type) {
	case BSlice:
		s = v
	case *BArr:
		s = BSlice{arr: v, len: len(v.cells), cap: len(v.cells)}
	case BPtr:
		if a, ok := bx.deref(v).(*BArr); ok {
			s = BSlice{arr: a, len: len(a.cells), cap: len(a.cells)}
		} else {
			bx.abort("unsupported", "slice of pointer")
		}
	default:
		bx.abort("unsupported", "slice of %T", b)
	}
	lo, hi, mx := 0, s.len, s.cap
	if x.Low != nil {
		lo = int(bx.concInt(bx.eval(fr, x.Low).(*Term), "slice bound"))
	}
	if x.High != nil {
		hi = int(bx.concInt(bx.eval(fr, x.High).(*Term), "slice bound"))
	}
	if x.Max != nil {
		mx = int(bx.concInt(bx.eval(fr, x.Max).(*Term), "slice bound"))
	}
	limit := s.cap
	if s.str {
		limit = s.len
	}
	if lo < 0 || lo > hi || hi > mx || mx > limit {
		bx.abort("violation", "slice bounds out of range [%d:%d:%d] with capacity %d", lo, hi, mx, limit)
	}
	r := BSlice{arr: s.arr, off: s.off + lo, len: hi - lo, cap: mx - lo, str: s.str}
	if s.isNil {
		r.isNil = true
	}
	return r
}

func (bx *BX) evalSelector(fr *bframe, x *ast.SelectorExpr) BVal {
	if id, ok := x.X.(*ast.Ident); ok {
		if _, isPkg := fr.info.ObjectOf(id).(*types.PkgName); isPkg {
			return bx.evalIdent(fr, x.Sel)
		}
	}
	sel := fr.info.Selections[x]
	if sel == nil {
		bx.abort("unsupported", "selector")
	}
	base := bx.eval(fr, x.X)
	switch sel.Kind() {
	case types.FieldVal:
		cur := base
		for _, idx := range sel.Index() {
			if p, ok := cur.(BPtr); ok {
				cur = bx.deref(p)
			}
			if _, ok := cur.(BNil); ok {
				bx.abort("violation", "nil pointer dereference (field access)")
			}
			st, ok := cur.(*BStruct)
			if !ok {
				bx.abort("unsupported", "field of %T", cur)
			}
			cur = st.f[idx]
		}
		return cur
	case types.MethodVal:
		fn := sel.Obj().(*types.Func)
		if nativeOverride[funcFullName(fn)] {
			return &BFunc{builtin: funcFullName(fn), recv: base, hasRecv: true}
		}
		// embedded-field promotion: walk to the receiver
		if idx := sel.Index(); len(idx) > 1 {
			cur := base
			for _, i := range idx[:len(idx)-1] {
				if p, ok := cur.(BPtr); ok {
					cur = bx.deref(p)
				}
				if st, ok := cur.(*BStruct); ok {
					cur = st.f[i]
				}
			}
			base = cur
		}
		if iv, ok := base.(BIface); ok {
			// dynamic dispatch on the concrete type
			if iv.t != nil {
				ms := types.NewMethodSet(iv.t)
				if m := ms.Lookup(fn.Pkg(), fn.Name()); m != nil {
					if cfn, ok := m.Obj().(*types.Func); ok {
						if nativeOverride[funcFullName(cfn)] {
							return &BFunc{builtin: funcFullName(cfn), recv: iv.v, hasRecv: true}
						}
						if fi, ok := bx.prog.Funcs[funcFullName(cfn)]; ok {
							return &BFunc{fi: fi, recv: iv.v, hasRecv: true}
						}
					}
				}
			}
			bx.abort("unsupported", "dynamic dispatch of %s", fn.Name())
		}
		if fi, ok := bx.prog.Funcs[funcFullName(fn)]; ok {
			return &BFunc{fi: fi, recv: base, hasRecv: true}
		}
		return &BFunc{builtin: funcFullName(fn), recv: base, hasRecv: true}
	}
	bx.abort("unsupported", "selector kind")
	return nil
}

func (bx *BX) evalCompositeLit(fr *bframe, x *ast.CompositeLit, t types.Type) BVal {
	switch kindOf(t) {
	case KStruct:
		st := t.Underlying().(*types.Struct)
		s := bx.zero(t).(*BStruct)
		for i, el := range x.Elts {
			if kv, ok := el.(*ast.KeyValueExpr); ok {
				name := kv.Key.(*ast.Ident).Name
				for j := 0; j < st.NumFields(); j++ {
					if st.Field(j).Name() == name {
						s.f[j] = bx.copyVal(bx.convert(bx.evalTyped(fr, kv.Value, st.Field(j).Type()), bx.typeOf(fr, kv.Value), st.Field(j).Type()))
					}
				}
			} else {
				s.f[i] = bx.copyVal(bx.convert(bx.evalTyped(fr, el, st.Field(i).Type()), bx.typeOf(fr, el), st.Field(i).Type()))
			}
		}
		return s
	case KSlice, KArray:
		et := elemTypeOf(t)
		var cells []BVal
		idx := 0
		set := func(i int, v BVal) {
			for len(cells) <= i {
				cells = append(cells, bx.zero(et))
			}
			cells[i] = v
		}
		for _, el := range x.Elts {
			ve := el
			if kv, ok := el.(*ast.KeyValueExpr); ok {
				if tv, ok := fr.info.Types[kv.Key]; ok && tv.Value != nil {
					k, _ := constant.Int64Val(constant.ToInt(tv.Value))
					idx = int(k)
				}
				ve = kv.Value
			}
			set(idx, bx.copyVal(bx.convert(bx.evalTyped(fr, ve, et), bx.typeOf(fr, ve), et)))
			idx++
		}
		if kindOf(t) == KArray {
			n := int(t.Underlying().(*types.Array).Len())
			for len(cells) < n {
				cells = append(cells, bx.zero(et))
			}
			bx.arrN++
			return &BArr{cells: cells, id: bx.arrN}
		}
		bx.arrN++
		return BSlice{arr: &BArr{cells: cells, id: bx.arrN}, len: len(cells), cap: len(cells)}
	case KMap:
		m := &BMap{m: map[string]BVal{}}
		for _, el := range x.Elts {
			kv := el.(*ast.KeyValueExpr)
			k := bx.mapKey(bx.eval(fr, kv.Key))
			if _, ok := m.m[k]; !ok {
				m.keys = append(m.keys, k)
			}
			m.m[k] = bx.evalTyped(fr, kv.Value, elemTypeOf(t))
		}
		return m
	}
	bx.abort("unsupported", "composite literal of %s", typeKey(t))
	return nil
}

func (bx *BX) mapKey(v BVal) string {
	switch k := v.(type) {
	case *Term:
		c := bx.concInt(k, "map key")
		return fmt.Sprintf("i%d", c)
	case BSlice:
		var sb strings.Builder
		sb.WriteString("s")
		for i := 0; i < k.len; i++ {
			c := bx.concInt(k.arr.cells[k.off+i].(*Term), "map key byte")
			sb.WriteByte(byte(c))
		}
		return sb.String()
	}
	bx.abort("unsupported", "map key %T", v)
	return ""
}

func (bx *BX) convert(v BVal, from, to types.Type) BVal {
	if to == nil {
		return v
	}
	switch kindOf(to) {
	case KInt:
		if t, ok := v.(*Term); ok && t.Sort == SInt {
			return bx.wrapInt(t, to)
		}
		if t, ok := v.(*Term); ok && t.Sort == "Flt" {
			bx.abort("unsupported", "float to int conversion")
		}
	case KFloat:
		if t, ok := v.(*Term); ok && t.Sort == SInt {
			return App("flt_of_int", "Flt", t)
		}
	case KString:
		if s, ok := v.(BSlice); ok && !s.str {
			arr := bx.newArr(s.len, func() BVal { return Zero })
			for i := 0; i < s.len; i++ {
				arr.cells[i] = s.arr.cells[s.off+i]
			}
			return BSlice{arr: arr, len: s.len, cap: s.len, str: true}
		}
	case KSlice:
		if s, ok := v.(BSlice); ok && s.str {
			arr := bx.newArr(s.len, func() BVal { return Zero })
			for i := 0; i < s.len; i++ {
				arr.cells[i] = s.arr.cells[s.off+i]
			}
			return BSlice{arr: arr, len: s.len, cap: s.len}
		}
		if _, ok := v.(BNil); ok {
			return BSlice{isNil: true}
		}
	case KIface:
		if _, ok := v.(BIface); ok {
			return v
		}
		if _, ok := v.(BNil); ok {
			return v
		}
		return BIface{t: from, v: v}
	}
	return v
}

// ---- lvalues

func (bx *BX) assign(fr *bframe, lhs ast.Expr, v BVal, define bool) {
	v = bx.copyVal(v)
	switch x := unparen(lhs).(type) {
	case *ast.Ident:
		if x.Name == "_" {
			return
		}
		if define {
			if o, ok := fr.info.Defs[x].(*types.Var); ok && o != nil {
				fr.vars[o] = &BVar{v: bx.convert(v, nil, o.Type())}
				return
			}
		}
		o, _ := fr.info.ObjectOf(x).(*types.Var)
		if bv := fr.lookup(o); bv != nil {
			bv.v = bx.convert(v, nil, o.Type())
			return
		}
		if o != nil && o.Pkg() != nil && o.Parent() == o.Pkg().Scope() {
			bx.abort("violation", "write to package-level variable %s", o.Name())
		}
		bx.abort("unsupported", "assignment to unbound %s", x.Name)
	case *ast.IndexExpr:
		b := bx.eval(fr, x.X)
		if m, ok := b.(*BMap); ok {
			k := bx.mapKey(bx.eval(fr, x.Index))
			if _, ok := m.m[k]; !ok {
				m.keys = append(m.keys, k)
			}
			m.m[k] = v
			return
		}
		i := int(bx.concInt(bx.eval(fr, x.Index).(*Term), "index"))
		var arr *BArr
		off, ln := 0, 0
		switch s := b.(type) {
		case BSlice:
			arr, off, ln = s.arr, s.off, s.len
		case *BArr:
			arr, off, ln = s, 0, len(s.cells)
		default:
			bx.abort("unsupported", "index assignment on %T", b)
		}
		if i < 0 || i >= ln {
			bx.abort("violation", "index out of range [%d] with length %d", i, ln)
		}
		if arr.frozen {
			bx.abort("violation", "write into package-level / constant data (array id %d)", arr.id)
		}
		arr.cells[off+i] = v
	case *ast.StarExpr:
		p := bx.eval(fr, x.X)
		bx.storePtr(p, v)
	case *ast.SelectorExpr:
		sel := fr.info.Selections[x]
		if sel == nil {
			if id, ok := x.X.(*ast.Ident); ok {
				if _, isPkg := fr.info.ObjectOf(id).(*types.PkgName); isPkg {
					bx.abort("violation", "write to package-level variable %s", x.Sel.Name)
				}
			}
			bx.abort("unsupported", "selector assignment")
		}
		cur := bx.eval(fr, x.X)
		idxs := sel.Index()
		for k, idx := range idxs {
			if p, ok := cur.(BPtr); ok {
				cur = bx.deref(p)
			}
			st, ok := cur.(*BStruct)
			if !ok {
				bx.abort("unsupported", "field assignment on %T", cur)
			}
			if k == len(idxs)-1 {
				st.f[idx] = v
				return
			}
			cur = st.f[idx]
		}
	default:
		bx.abort("unsupported", "assignment target %T", lhs)
	}
}

func (bx *BX) storePtr(p BVal, v BVal) {
	switch x := p.(type) {
	case BPtr:
		if x.v != nil {
			x.v.v = v
			return
		}
		if x.arr != nil {
			if x.arr.frozen {
				bx.abort("violation", "write into package-level / constant data")
			}
			x.arr.cells[x.idx] = v
			return
		}
	case BNil:
		bx.abort("violation", "nil pointer dereference (store)")
	}
	bx.abort("unsupported", "store through %T", p)
}

// decideLinear handles (possibly negated) linear comparisons over several symbols.
// Returns (truth, true) when decided; (2, false) when a symbol's domain was narrowed by a fork; (0, false) when not applicable.
func (bx *BX) decideLinear(t *Term) (bool2 int8, done bool) {
	r, d := bx.decideLinear1(t)
	return r, d
}

func (bx *BX) decideLinear1(t *Term) (int8, bool) {
	neg := false
	for t.Op == "not" {
		neg = !neg
		t = t.Args[0]
	}
	var f *linForm
	strict := false
	switch t.Op {
	case "<", "<=":
		lf, ok := bx.linform(Sub(t.Args[0], t.Args[1]))
		if !ok {
			return 0, false
		}
		f = lf
		strict = t.Op == "<"
	default:
		return 0, false
	}
	// condition C: f < 0 (strict) or f <= 0
	mn, mx, _, _ := bx.linExtremes(f)
	holds := func(v *big.Int) bool {
		if strict {
			return v.Sign() < 0
		}
		return v.Sign() <= 0
	}
	res := func(b bool) (int8, bool) {
		if b != neg {
			return 1, true
		}
		return 0, true
	}
	if holds(mx) {
		return res(true)
	}
	if !holds(mn) {
		return res(false)
	}
	// undecided: pick the most influential symbol
	var best string
	var bestW *big.Int
	for n, k := range f.k {
		if k.Sign() == 0 {
			continue
		}
		s := bx.syms[n]
		w := new(big.Int).Mul(new(big.Int).Abs(k), new(big.Int).Sub(s.dom[len(s.dom)-1].hi, s.dom[0].lo))
		if bestW == nil || w.Cmp(bestW) > 0 || (w.Cmp(bestW) == 0 && n < best) {
			best, bestW = n, w
		}
	}
	if best == "" {
		return 0, false
	}
	s := bx.syms[best]
	k := f.k[best]
	rest := &linForm{k: map[string]*big.Int{}, c: f.c}
	for n, kk := range f.k {
		if n != best {
			rest.k[n] = kk
		}
	}
	rmin, rmax, _, _ := bx.linExtremes(rest)
	// classify each value region of x: sure-true (k*x+rmax holds), sure-false (k*x+rmin fails), middle
	var td, fd, md []ival
	classify := func(x *big.Int) int {
		kx := new(big.Int).Mul(k, x)
		if holds(new(big.Int).Add(kx, rmax)) {
			return 0
		}
		if !holds(new(big.Int).Add(kx, rmin)) {
			return 1
		}
		return 2
	}
	// thresholds are monotone in x; find them by solving, then cut intervals at candidate points
	cand := []*big.Int{}
	for _, r := range []*big.Int{rmin, rmax} {
		x0 := new(big.Int).Div(new(big.Int).Neg(r), k)
		for d := int64(-2); d <= 2; d++ {
			cand = append(cand, new(big.Int).Add(x0, big.NewInt(d)))
		}
	}
	for _, iv := range s.dom {
		pts := []*big.Int{iv.lo}
		for _, c := range cand {
			if c.Cmp(iv.lo) > 0 && c.Cmp(iv.hi) <= 0 {
				pts = append(pts, c)
			}
		}
		sortBig(pts)
		for i, p := range pts {
			if i > 0 && p.Cmp(pts[i-1]) == 0 {
				continue
			}
			hi := iv.hi
			for j := i + 1; j < len(pts); j++ {
				if pts[j].Cmp(p) > 0 {
					hi = new(big.Int).Sub(pts[j], big.NewInt(1))
					break
				}
			}
			piece := ival{p, hi}
			// classification is constant on a piece only if both ends agree; otherwise fall back to middle
			c1, c2 := classify(p), classify(hi)
			cl := 2
			if c1 == c2 {
				cl = c1
			}
			switch cl {
			case 0:
				td = append(td, piece)
			case 1:
				fd = append(fd, piece)
			default:
				md = append(md, piece)
			}
		}
	}
	td, fd, md = normDom(td), normDom(fd), normDom(md)
	var parts [][]ival
	var kinds []int
	if len(td) > 0 {
		parts, kinds = append(parts, td), append(kinds, 0)
	}
	if len(fd) > 0 {
		parts, kinds = append(parts, fd), append(kinds, 1)
	}
	if len(md) > 0 {
		// the middle region must shrink: if it is the whole domain, bisect it
		if len(td) == 0 && len(fd) == 0 {
			sz := (&Sym{dom: md}).size()
			if sz.Cmp(big.NewInt(1)) <= 0 {
				return 0, false
			}
			lo, hi := md[0].lo, md[len(md)-1].hi
			mid := new(big.Int).Div(new(big.Int).Add(lo, hi), big.NewInt(2))
			var a, b []ival
			for _, iv := range md {
				if iv.hi.Cmp(mid) <= 0 {
					a = append(a, iv)
				} else if iv.lo.Cmp(mid) > 0 {
					b = append(b, iv)
				} else {
					a = append(a, ival{iv.lo, mid})
					b = append(b, ival{new(big.Int).Add(mid, big.NewInt(1)), iv.hi})
				}
			}
			parts, kinds = append(parts, a, b), append(kinds, 2, 2)
		} else {
			parts, kinds = append(parts, md), append(kinds, 2)
		}
	}
	c := bx.choose(len(parts))
	s.dom = parts[c]
	switch kinds[c] {
	case 0:
		return res(true)
	case 1:
		return res(false)
	}
	return 2, false
}

func sortBig(v []*big.Int) {
	sort.Slice(v, func(i, j int) bool { return v[i].Cmp(v[j]) < 0 })
}

// pureTotal: the expression has no side effects and cannot panic (identifiers, literals, comparisons, + - *, !, && ||).
func pureTotal(e ast.Expr) bool {
	switch x := e.(type) {
	case *ast.ParenExpr:
		return pureTotal(x.X)
	case *ast.Ident, *ast.BasicLit:
		return true
	case *ast.UnaryExpr:
		return (x.Op == token.NOT || x.Op == token.SUB || x.Op == token.ADD) && pureTotal(x.X)
	case *ast.BinaryExpr:
		switch x.Op {
		case token.ADD, token.SUB, token.MUL, token.EQL, token.NEQ, token.LSS, token.LEQ, token.GTR, token.GEQ, token.LAND, token.LOR:
			return pureTotal(x.X) && pureTotal(x.Y)
		}
	}
	return false
}

// concIntBig: like concInt but allows domains up to 2^22 values (explicit concretize() in harnesses), by bisection then enumeration.
func (bx *BX) concIntBig(t *Term, what string) int64 {
	for iter := 0; iter < 64; iter++ {
		t = bx.norm(t)
		if v, ok := t.Int64(); ok {
			return v
		}
		fs := bx.freeSyms(t)
		if len(fs) != 1 {
			return bx.concInt(t, what)
		}
		s := fs[0]
		sz := s.size()
		if sz.Cmp(big.NewInt(4096)) <= 0 {
			return bx.concInt(t, what)
		}
		if sz.Cmp(big.NewInt(1<<22)) > 0 {
			bx.abort("unsupported", "%s over a domain of %s values", what, sz)
		}
		// bisect
		lo, hi := s.dom[0].lo, s.dom[len(s.dom)-1].hi
		mid := new(big.Int).Div(new(big.Int).Add(lo, hi), big.NewInt(2))
		var a, b []ival
		for _, iv := range s.dom {
			if iv.hi.Cmp(mid) <= 0 {
				a = append(a, iv)
			} else if iv.lo.Cmp(mid) > 0 {
				b = append(b, iv)
			} else {
				a = append(a, ival{iv.lo, mid})
				b = append(b, ival{new(big.Int).Add(mid, big.NewInt(1)), iv.hi})
			}
		}
		if bx.choose(2) == 0 {
			s.dom = a
		} else {
			s.dom = b
		}
	}
	bx.abort("unsupported", "concIntBig did not converge")
	return 0
}
