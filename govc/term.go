package main

// Terms: hash-consed SMT terms with light simplification.

import (
	"strconv"
	"fmt"
	"math/big"
	"sort"
	"strings"
	"sync"
)

// Sorts are SMT-LIB sort strings.
const (
	SInt  = "Int"
	SBool = "Bool"
	SArr  = "(Array Int Int)"
	SMem  = "(Array Int (Array Int Int))"
	SRef  = "Int" // references are integers (0 = nil)
)

type Term struct {
	Op   string // "const","var","app", or an SMT operator
	Name string // var / uninterpreted function name
	K    *big.Int
	B    bool // for Op=="bool"
	Args []*Term
	Sort string
	id   int
	key  string
}

var (
	internMu sync.Mutex
	intern   = map[string]*Term{}
	nextID   = 1
)

type ikey struct {
	op, name, sort string
	k          string
	b          bool
	n          int
	a0, a1, a2 int
}

var internS = map[ikey]*Term{}

func mk(op, name string, k *big.Int, b bool, sortS string, args ...*Term) *Term {
	var key string
	if len(args) <= 3 {
		ik := ikey{op: op, name: name, sort: sortS, b: b, n: len(args)}
		if k != nil {
			if k.IsInt64() {
				ik.k = strconv.FormatInt(k.Int64(), 36)
			} else {
				ik.k = k.Text(36)
			}
		}
		for i, a := range args {
			if a == nil {
				panic("nil term arg in " + op + " " + name)
			}
			switch i {
			case 0:
				ik.a0 = a.id
			case 1:
				ik.a1 = a.id
			case 2:
				ik.a2 = a.id
			}
		}
		internMu.Lock()
		if t, ok := internS[ik]; ok {
			internMu.Unlock()
			return t
		}
		t := &Term{Op: op, Name: name, K: k, B: b, Args: args, Sort: sortS, id: nextID}
		nextID++
		internS[ik] = t
		internMu.Unlock()
		return t
	}
	buf := make([]byte, 0, 64)
	buf = append(buf, op...)
	buf = append(buf, '|')
	buf = append(buf, name...)
	buf = append(buf, '|')
	if k != nil {
		buf = append(buf, k.String()...)
	}
	if b {
		buf = append(buf, 'T')
	}
	buf = append(buf, '|')
	buf = append(buf, sortS...)
	for _, a := range args {
		if a == nil {
			panic("nil term arg in " + op + " " + name)
		}
		buf = append(buf, ',')
		buf = strconv.AppendInt(buf, int64(a.id), 36)
	}
	key = string(buf)
	internMu.Lock()
	defer internMu.Unlock()
	if t, ok := intern[key]; ok {
		return t
	}
	t := &Term{Op: op, Name: name, K: k, B: b, Args: args, Sort: sortS, id: nextID, key: key}
	nextID++
	intern[key] = t
	return t
}

const smallLo, smallHi = -1024, 1 << 16

var smallInts [smallHi - smallLo + 1]*Term

func IntK(v int64) *Term {
	if v >= smallLo && v <= smallHi {
		if t := smallInts[v-smallLo]; t != nil {
			return t
		}
		t := mk("const", "", big.NewInt(v), false, SInt)
		smallInts[v-smallLo] = t
		return t
	}
	return mk("const", "", big.NewInt(v), false, SInt)
}
func IntBig(v *big.Int) *Term {
	if v.IsInt64() {
		return IntK(v.Int64())
	}
	return mk("const", "", new(big.Int).Set(v), false, SInt)
}
func BoolK(b bool) *Term       { return mk("bool", "", nil, b, SBool) }
func Var(name, s string) *Term { return mk("var", name, nil, false, s) }

var (
	True  = BoolK(true)
	False = BoolK(false)
	Zero  = IntK(0)
	One   = IntK(1)
)

func (t *Term) IsConst() bool { return t.Op == "const" }
func (t *Term) IsTrue() bool  { return t.Op == "bool" && t.B }
func (t *Term) IsFalse() bool { return t.Op == "bool" && !t.B }
func (t *Term) Int64() (int64, bool) {
	if t.Op == "const" && t.K.IsInt64() {
		return t.K.Int64(), true
	}
	return 0, false
}

func App(name, sortS string, args ...*Term) *Term { return mk("app", name, nil, false, sortS, args...) }

// ---- arithmetic

func Add(a, b *Term) *Term {
	if a.IsConst() && b.IsConst() {
		return IntBig(new(big.Int).Add(a.K, b.K))
	}
	if a.IsConst() && a.K.Sign() == 0 {
		return b
	}
	if b.IsConst() && b.K.Sign() == 0 {
		return a
	}
	// (x + c1) + c2
	if b.IsConst() && a.Op == "+" && len(a.Args) == 2 && a.Args[1].IsConst() {
		return Add(a.Args[0], IntBig(new(big.Int).Add(a.Args[1].K, b.K)))
	}
	if a.IsConst() {
		return Add(b, a)
	}
	// (x - y) + y
	if a.Op == "-" && len(a.Args) == 2 && a.Args[1] == b {
		return a.Args[0]
	}
	// y + (x - y)
	if b.Op == "-" && len(b.Args) == 2 && b.Args[1] == a {
		return b.Args[0]
	}
	return mk("+", "", nil, false, SInt, a, b)
}

func Sub(a, b *Term) *Term {
	if a == b {
		return Zero
	}
	if b.IsConst() {
		return Add(a, IntBig(new(big.Int).Neg(b.K)))
	}
	if a.IsConst() && b.IsConst() {
		return IntBig(new(big.Int).Sub(a.K, b.K))
	}
	// (x + c) - x
	if a.Op == "+" && len(a.Args) == 2 && a.Args[0] == b {
		return a.Args[1]
	}
	// (x + c1) - (x + c2)
	if a.Op == "+" && b.Op == "+" && a.Args[0] == b.Args[0] && a.Args[1].IsConst() && b.Args[1].IsConst() {
		return IntBig(new(big.Int).Sub(a.Args[1].K, b.Args[1].K))
	}
	if b.Op == "+" && len(b.Args) == 2 && b.Args[0] == a && b.Args[1].IsConst() {
		return IntBig(new(big.Int).Neg(b.Args[1].K))
	}
	return mk("-", "", nil, false, SInt, a, b)
}

func Neg(a *Term) *Term { return Sub(Zero, a) }

func Mul(a, b *Term) *Term {
	if a.IsConst() && b.IsConst() {
		return IntBig(new(big.Int).Mul(a.K, b.K))
	}
	if a.IsConst() {
		a, b = b, a
	}
	if b.IsConst() {
		if b.K.Sign() == 0 {
			return Zero
		}
		if b.K.Cmp(big.NewInt(1)) == 0 {
			return a
		}
	}
	return mk("*", "", nil, false, SInt, a, b)
}

// EDiv / EMod are SMT-LIB (euclidean/floor for positive divisor) div and mod.
func EDiv(a, b *Term) *Term {
	if a.IsConst() && b.IsConst() && b.K.Sign() != 0 {
		q, m := new(big.Int).DivMod(a.K, b.K, new(big.Int))
		_ = m
		return IntBig(q)
	}
	return mk("div", "", nil, false, SInt, a, b)
}
func EMod(a, b *Term) *Term {
	if a.IsConst() && b.IsConst() && b.K.Sign() != 0 {
		_, m := new(big.Int).DivMod(a.K, b.K, new(big.Int))
		return IntBig(m)
	}
	return mk("mod", "", nil, false, SInt, a, b)
}

// TDiv / TRem are Go's truncated division and remainder.
func TDiv(a, b *Term) *Term {
	if a.IsConst() && b.IsConst() && b.K.Sign() != 0 {
		return IntBig(new(big.Int).Quo(a.K, b.K))
	}
	// for positive constant divisor: a>=0 ? div(a,b) : -div(-a,b)
	return Ite(Ge(a, Zero), Ite(Gt(b, Zero), EDiv(a, b), Neg(EDiv(a, Neg(b)))),
		Ite(Gt(b, Zero), Neg(EDiv(Neg(a), b)), EDiv(Neg(a), Neg(b))))
}
func TRem(a, b *Term) *Term {
	if a.IsConst() && b.IsConst() && b.K.Sign() != 0 {
		return IntBig(new(big.Int).Rem(a.K, b.K))
	}
	return Sub(a, Mul(TDiv(a, b), b))
}

// ---- comparisons

func cmpConst(a, b *Term) (int, bool) {
	if a.IsConst() && b.IsConst() {
		return a.K.Cmp(b.K), true
	}
	if a == b {
		return 0, true
	}
	// x + c1 vs x + c2
	ab, ak := splitAddConst(a)
	bb, bk := splitAddConst(b)
	if ab == bb && ab != nil {
		return ak.Cmp(bk), true
	}
	return 0, false
}

func splitAddConst(t *Term) (*Term, *big.Int) {
	if t.Op == "+" && len(t.Args) == 2 && t.Args[1].IsConst() {
		return t.Args[0], t.Args[1].K
	}
	if t.IsConst() {
		return nil, t.K
	}
	return t, big.NewInt(0)
}

func Lt(a, b *Term) *Term {
	if c, ok := cmpConst(a, b); ok {
		return BoolK(c < 0)
	}
	return mk("<", "", nil, false, SBool, a, b)
}
func Le(a, b *Term) *Term {
	if c, ok := cmpConst(a, b); ok {
		return BoolK(c <= 0)
	}
	return mk("<=", "", nil, false, SBool, a, b)
}
func Gt(a, b *Term) *Term { return Lt(b, a) }
func Ge(a, b *Term) *Term { return Le(b, a) }

func Eq(a, b *Term) *Term {
	if a == b {
		return True
	}
	if a.Sort != b.Sort {
		panic(fmt.Sprintf("Eq sort mismatch %s vs %s: %s / %s", a.Sort, b.Sort, a, b))
	}
	if a.Sort == SInt {
		if c, ok := cmpConst(a, b); ok {
			return BoolK(c == 0)
		}
	}
	if a.Sort == SBool {
		if a.Op == "bool" {
			if a.B {
				return b
			}
			return Not(b)
		}
		if b.Op == "bool" {
			if b.B {
				return a
			}
			return Not(a)
		}
	}
	if a.id > b.id {
		a, b = b, a
	}
	return mk("=", "", nil, false, SBool, a, b)
}
func Ne(a, b *Term) *Term { return Not(Eq(a, b)) }

// ---- booleans

func Not(a *Term) *Term {
	if a.Op == "bool" {
		return BoolK(!a.B)
	}
	if a.Op == "not" {
		return a.Args[0]
	}
	if a.Op == "<" {
		return Le(a.Args[1], a.Args[0])
	}
	if a.Op == "<=" {
		return Lt(a.Args[1], a.Args[0])
	}
	return mk("not", "", nil, false, SBool, a)
}

func And(xs ...*Term) *Term {
	var out []*Term
	seen := map[int]bool{}
	for _, x := range xs {
		if x.IsTrue() {
			continue
		}
		if x.IsFalse() {
			return False
		}
		if x.Op == "and" {
			for _, y := range x.Args {
				if !seen[y.id] {
					seen[y.id] = true
					out = append(out, y)
				}
			}
			continue
		}
		if !seen[x.id] {
			seen[x.id] = true
			out = append(out, x)
		}
	}
	for _, x := range out {
		if n := Not(x); seen[n.id] {
			return False
		}
	}
	if len(out) == 0 {
		return True
	}
	if len(out) == 1 {
		return out[0]
	}
	return mk("and", "", nil, false, SBool, out...)
}

func Or(xs ...*Term) *Term {
	var out []*Term
	seen := map[int]bool{}
	for _, x := range xs {
		if x.IsFalse() {
			continue
		}
		if x.IsTrue() {
			return True
		}
		if x.Op == "or" {
			for _, y := range x.Args {
				if !seen[y.id] {
					seen[y.id] = true
					out = append(out, y)
				}
			}
			continue
		}
		if !seen[x.id] {
			seen[x.id] = true
			out = append(out, x)
		}
	}
	for _, x := range out {
		if n := Not(x); seen[n.id] {
			return True
		}
	}
	if len(out) == 0 {
		return False
	}
	if len(out) == 1 {
		return out[0]
	}
	// (and p q) or (and p (not q)) -> p   (common join pattern)
	if len(out) == 2 && out[0].Op == "and" && out[1].Op == "and" {
		if r := factorOr(out[0], out[1]); r != nil {
			return r
		}
	}
	return mk("or", "", nil, false, SBool, out...)
}

func factorOr(a, b *Term) *Term {
	// common conjuncts
	inB := map[int]bool{}
	for _, y := range b.Args {
		inB[y.id] = true
	}
	var common, ra, rb []*Term
	inC := map[int]bool{}
	for _, x := range a.Args {
		if inB[x.id] {
			common = append(common, x)
			inC[x.id] = true
		} else {
			ra = append(ra, x)
		}
	}
	if len(common) == 0 {
		return nil
	}
	for _, y := range b.Args {
		if !inC[y.id] {
			rb = append(rb, y)
		}
	}
	return And(append(common, Or(And(ra...), And(rb...)))...)
}

func Implies(a, b *Term) *Term {
	if a.IsTrue() {
		return b
	}
	if a.IsFalse() || b.IsTrue() {
		return True
	}
	if b.IsFalse() {
		return Not(a)
	}
	return mk("=>", "", nil, false, SBool, a, b)
}

func Ite(c, a, b *Term) *Term {
	if c.IsTrue() {
		return a
	}
	if c.IsFalse() {
		return b
	}
	if a == b {
		return a
	}
	if a.Sort != b.Sort {
		panic(fmt.Sprintf("Ite sort mismatch %s vs %s", a.Sort, b.Sort))
	}
	if a.Sort == SBool {
		if a.IsTrue() && b.IsFalse() {
			return c
		}
		if a.IsFalse() && b.IsTrue() {
			return Not(c)
		}
		if a.IsTrue() {
			return Or(c, b)
		}
		if b.IsFalse() {
			return And(c, a)
		}
		if a.IsFalse() {
			return And(Not(c), b)
		}
		if b.IsTrue() {
			return Or(Not(c), a)
		}
	}
	return mk("ite", "", nil, false, a.Sort, c, a, b)
}

// ---- arrays

func elemSort(arrSort string) string {
	// "(Array Int X)" -> X
	if !strings.HasPrefix(arrSort, "(Array Int ") {
		panic("not an array sort: " + arrSort)
	}
	return arrSort[len("(Array Int ") : len(arrSort)-1]
}
func ArrSortOf(elem string) string { return "(Array Int " + elem + ")" }

func Select(a, i *Term) *Term {
	// select over store with decidable index comparison
	for a.Op == "store" {
		eq := Eq(a.Args[1], i)
		if eq.IsTrue() {
			return a.Args[2]
		}
		if eq.IsFalse() {
			a = a.Args[0]
			continue
		}
		break
	}
	if a.Op == "constarr" {
		return a.Args[0]
	}
	return mk("select", "", nil, false, elemSort(a.Sort), a, i)
}

func Store(a, i, v *Term) *Term {
	if v.Sort != elemSort(a.Sort) {
		panic(fmt.Sprintf("Store sort mismatch: array %s value %s", a.Sort, v.Sort))
	}
	// store(store(a,i,_),i,v) -> store(a,i,v)
	if a.Op == "store" && a.Args[1] == i {
		return Store(a.Args[0], i, v)
	}
	return mk("store", "", nil, false, a.Sort, a, i, v)
}

func ConstArr(sortS string, v *Term) *Term { return mk("constarr", "", nil, false, sortS, v) }

// Quantifiers: bound variables are Var terms.
func Forall(vars []*Term, body *Term) *Term {
	if body.IsTrue() {
		return True
	}
	args := append(append([]*Term{}, vars...), body)
	return mk("forall", fmt.Sprint(len(vars)), nil, false, SBool, args...)
}
func Exists(vars []*Term, body *Term) *Term {
	if body.IsFalse() {
		return False
	}
	args := append(append([]*Term{}, vars...), body)
	return mk("exists", fmt.Sprint(len(vars)), nil, false, SBool, args...)
}

// ---- printing

func (t *Term) String() string {
	var sb strings.Builder
	t.write(&sb, nil)
	return sb.String()
}

func smtInt(k *big.Int) string {
	if k.Sign() < 0 {
		return "(- " + new(big.Int).Neg(k).String() + ")"
	}
	return k.String()
}

func smtName(n string) string {
	for _, c := range n {
		if !(c >= 'a' && c <= 'z' || c >= 'A' && c <= 'Z' || c >= '0' && c <= '9' || c == '_' || c == '.' || c == '!' || c == '$' || c == '@' || c == '%' || c == '^' || c == '&' || c == '~') {
			return "|" + n + "|"
		}
	}
	return n
}

func (t *Term) write(sb *strings.Builder, named map[int]string) {
	if named != nil {
		if n, ok := named[t.id]; ok {
			sb.WriteString(n)
			return
		}
	}
	switch t.Op {
	case "const":
		sb.WriteString(smtInt(t.K))
	case "bool":
		if t.B {
			sb.WriteString("true")
		} else {
			sb.WriteString("false")
		}
	case "var":
		sb.WriteString(smtName(t.Name))
	case "app":
		if len(t.Args) == 0 {
			sb.WriteString(smtName(t.Name))
			return
		}
		sb.WriteByte('(')
		sb.WriteString(smtName(t.Name))
		for _, a := range t.Args {
			sb.WriteByte(' ')
			a.write(sb, named)
		}
		sb.WriteByte(')')
	case "constarr":
		sb.WriteString("((as const " + t.Sort + ") ")
		t.Args[0].write(sb, named)
		sb.WriteByte(')')
	case "forall", "exists":
		n := len(t.Args) - 1
		sb.WriteString("(" + t.Op + " (")
		for _, v := range t.Args[:n] {
			sb.WriteString("(" + smtName(v.Name) + " " + v.Sort + ")")
		}
		sb.WriteString(") ")
		t.Args[n].write(sb, named)
		sb.WriteByte(')')
	default:
		sb.WriteByte('(')
		sb.WriteString(t.Op)
		for _, a := range t.Args {
			sb.WriteByte(' ')
			a.write(sb, named)
		}
		sb.WriteByte(')')
	}
}

// FreeVars collects var terms and uninterpreted function symbols.
type symInfo struct {
	name  string
	sort  string
	args  []string
	isFun bool
}

func collectSyms(ts []*Term, skipBound bool) []symInfo {
	// bound variable names are globally fresh, so a name is bound iff some quantifier in the query binds it
	bound := map[string]bool{}
	{
		seen := map[int]bool{}
		var walk func(t *Term)
		walk = func(t *Term) {
			if seen[t.id] {
				return
			}
			seen[t.id] = true
			if t.Op == "forall" || t.Op == "exists" {
				for _, v := range t.Args[:len(t.Args)-1] {
					bound[v.Name] = true
				}
			}
			for _, a := range t.Args {
				walk(a)
			}
		}
		for _, t := range ts {
			walk(t)
		}
	}
	seen := map[int]bool{}
	syms := map[string]symInfo{}
	var walk func(t *Term)
	walk = func(t *Term) {
		if seen[t.id] {
			return
		}
		seen[t.id] = true
		switch t.Op {
		case "var":
			if !bound[t.Name] {
				syms[t.Name] = symInfo{name: t.Name, sort: t.Sort}
			}
		case "app":
			if !isBuiltinFun(t.Name) {
				var as []string
				for _, a := range t.Args {
					as = append(as, a.Sort)
				}
				syms["f:"+t.Name] = symInfo{name: t.Name, sort: t.Sort, args: as, isFun: true}
			}
			for _, a := range t.Args {
				walk(a)
			}
		case "forall", "exists":
			walk(t.Args[len(t.Args)-1])
		default:
			for _, a := range t.Args {
				walk(a)
			}
		}
	}
	for _, t := range ts {
		walk(t)
	}
	var out []symInfo
	for _, s := range syms {
		out = append(out, s)
	}
	sort.Slice(out, func(i, j int) bool { return out[i].name < out[j].name })
	return out
}

var builtinFuns = map[string]bool{}

func isBuiltinFun(n string) bool { return builtinFuns[n] }

// termSize counts DAG nodes.
func termSize(ts ...*Term) int {
	seen := map[int]bool{}
	var walk func(t *Term)
	walk = func(t *Term) {
		if seen[t.id] {
			return
		}
		seen[t.id] = true
		for _, a := range t.Args {
			walk(a)
		}
	}
	for _, t := range ts {
		walk(t)
	}
	return len(seen)
}

// Subst replaces variables by terms (no capture handling beyond skipping bound names).
func Subst(t *Term, m map[string]*Term) *Term {
	cache := map[int]*Term{}
	var rec func(t *Term) *Term
	rec = func(t *Term) *Term {
		if r, ok := cache[t.id]; ok {
			return r
		}
		var r *Term
		switch t.Op {
		case "var":
			if v, ok := m[t.Name]; ok {
				r = v
			} else {
				r = t
			}
		case "const", "bool":
			r = t
		case "forall", "exists":
			n := len(t.Args) - 1
			m2 := m
			for _, v := range t.Args[:n] {
				if _, ok := m[v.Name]; ok {
					if &m2 == &m || true {
						mm := map[string]*Term{}
						for k, x := range m2 {
							mm[k] = x
						}
						delete(mm, v.Name)
						m2 = mm
					}
				}
			}
			body := Subst(t.Args[n], m2)
			if t.Op == "forall" {
				r = Forall(t.Args[:n], body)
			} else {
				r = Exists(t.Args[:n], body)
			}
		default:
			args := make([]*Term, len(t.Args))
			ch := false
			for i, a := range t.Args {
				args[i] = rec(a)
				if args[i] != a {
					ch = true
				}
			}
			if !ch {
				r = t
			} else {
				r = rebuild(t, args)
			}
		}
		cache[t.id] = r
		return r
	}
	return rec(t)
}

func rebuild(t *Term, args []*Term) *Term {
	switch t.Op {
	case "+":
		return Add(args[0], args[1])
	case "-":
		return Sub(args[0], args[1])
	case "*":
		return Mul(args[0], args[1])
	case "div":
		return EDiv(args[0], args[1])
	case "mod":
		return EMod(args[0], args[1])
	case "<":
		return Lt(args[0], args[1])
	case "<=":
		return Le(args[0], args[1])
	case "=":
		return Eq(args[0], args[1])
	case "not":
		return Not(args[0])
	case "and":
		return And(args...)
	case "or":
		return Or(args...)
	case "=>":
		return Implies(args[0], args[1])
	case "ite":
		return Ite(args[0], args[1], args[2])
	case "select":
		return Select(args[0], args[1])
	case "store":
		return Store(args[0], args[1], args[2])
	}
	return mk(t.Op, t.Name, t.K, t.B, t.Sort, args...)
}

// Eval evaluates a term under an environment of variable values. Returns nil if not fully concrete.
func Eval(t *Term, env map[string]*Term) *Term {
	return Subst(t, env)
}
