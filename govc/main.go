package main

import (
	"runtime/debug"
	"encoding/json"
	"flag"
	"fmt"
	"os"
	"runtime"
	"sort"
	"strings"
	"sync"
	"time"
)

var repoDir = "/repo"

type FuncReport struct {
	Full        string
	Unit        string
	Obls        []*Oblig
	Abstr       map[string]int
	OutOfSubset string
	Assumed     []string
	GenTime     float64
}

func verifyFunc(prog *Program, full string) (*FuncReport, error) {
	fi, ok := prog.Funcs[full]
	if !ok {
		return nil, fmt.Errorf("function %s not found", full)
	}
	t0 := time.Now()
	vc := newVC(prog, fi)
	func() {
		defer func() {
			if r := recover(); r != nil {
				buf := make([]byte, 1<<12)
				n := runtime.Stack(buf, false)
				lines := strings.Split(string(buf[:n]), "\n")
				if len(lines) > 12 {
					lines = lines[:12]
				}
				vc.outOfSubset = fmt.Sprintf("generator panic: %v\n%s", r, strings.Join(lines, "\n"))
			}
		}()
		vc.Run()
	}()
	rep := &FuncReport{Full: full, Unit: vc.unit, Obls: vc.obls, Abstr: vc.abstr, OutOfSubset: vc.outOfSubset, GenTime: time.Since(t0).Seconds()}
	for k := range vc.assumedContracts {
		rep.Assumed = append(rep.Assumed, k)
	}
	sort.Strings(rep.Assumed)
	return rep, nil
}

var quickSec, totalSec = 5, 20

func discharge(obls []*Oblig, workers int) {
	var wg sync.WaitGroup
	ch := make(chan *Oblig)
	for w := 0; w < workers; w++ {
		wg.Add(1)
		go func() {
			defer wg.Done()
			for o := range ch {
				if o.Res != nil {
					continue
				}
				q, t := quickSec, totalSec
				if o.Budget > 0 {
					q, t = o.Budget, o.Budget
				}
				if o.Full {
					q, t = 5, 15
				}
				if o.Cover && !o.Soft {
					// vacuity guards get the full budget even when the claimed obligations are capped
					if q < 5 {
						q = 5
					}
					if t < 15 {
						t = 15
					}
				}
				if o.Kind == "variant.auto" || o.Kind == "variant" {
					// a loop variant usually follows from a few facts that dominate the back edge: first try with
					// the atomic conjuncts of the path condition only (sound: a weaker hypothesis)
					if os.Getenv("GOVC_DEBUG_WEAK") != "" {
						fmt.Fprintf(os.Stderr, "WEAK %s: %s\n", o.Name, clipS(weakPC(o.PC).String(), 1500))
						fmt.Fprintf(os.Stderr, "PC op=%s nargs=%d\n", o.PC.Op, len(o.PC.Args))
						for _, a := range o.PC.Args {
							fmt.Fprintf(os.Stderr, "   arg op=%s nargs=%d %s\n", a.Op, len(a.Args), clipS(a.String(), 300))
						}
						os.WriteFile("/tmp/weak.smt2", []byte(buildScript(o.queryPC(weakPC(o.PC)), false)), 0o644)
					}
					if r := Solve(o.queryPC(weakPC(o.PC)), 8, 8); r.Status == "unsat" {
						r.Solver += "+weak-pc"
						o.Res = r
						continue
					}
				}
				o.Res = Solve(o.query(), q, t)
			}
		}()
	}
	for _, o := range obls {
		ch <- o
	}
	close(ch)
	wg.Wait()
}

func (o *Oblig) OK() bool {
	if o.Soft {
		return true
	}
	if o.Kind == "canary" {
		return o.Res == nil || o.Res.Status != "unsat" // proving false is the failure
	}
	if o.Cover {
		return o.Res != nil && o.Res.Status == "sat"
	}
	return o.Res != nil && o.Res.Status == "unsat"
}

func cmdVC(args []string) {
	fs := flag.NewFlagSet("vc", flag.ExitOnError)
	dump := fs.String("dump", "", "dump SMT of obligations whose name contains this")
	verbose := fs.Bool("v", false, "verbose")
	kinds := fs.String("k", "", "only discharge obligations of these kinds (comma separated, e.g. post,assert,step)")
	fs.Parse(args)
	prog, err := LoadProgram(repoDir, []string{"./..."})
	if err != nil {
		fmt.Println("load error:", err)
		os.Exit(2)
	}
	for _, e := range prog.Errors {
		fmt.Println("contract error:", e)
	}
	for _, name := range fs.Args() {
		var fulls []string
		for f := range prog.Funcs {
			if f == name || strings.HasSuffix(f, "/"+name) || (strings.HasSuffix(f, "."+name) && strings.HasPrefix(f, "github.com/tdewolff/minify/")) {
				fulls = append(fulls, f)
			}
		}
		sort.Strings(fulls)
		for _, full := range fulls {
			rep, err := verifyFunc(prog, full)
			if err != nil {
				fmt.Println(err)
				continue
			}
			for _, e := range prog.Errors {
				fmt.Println("contract error:", e)
			}
			prog.Errors = nil
			if rep.OutOfSubset != "" {
				fmt.Printf("%s: OUT OF SUBSET: %s\n", full, rep.OutOfSubset)
			}
			t0 := time.Now()
			if *kinds != "" {
				var sel []*Oblig
				for _, o := range rep.Obls {
					for _, k := range strings.Split(*kinds, ",") {
						if o.Kind == k {
							sel = append(sel, o)
						}
					}
				}
				rep.Obls = sel
			}
			discharge(rep.Obls, 16)
			nok := 0
			for _, o := range rep.Obls {
				if o.OK() {
					nok++
				}
				if !o.OK() || *verbose {
					fmt.Printf("  [%s] %-8s %s  (%s %v)\n", o.Res.Status, o.Kind, o.Name, o.Res.Solver, o.Res.Tried)
				}
				if *dump != "" && strings.Contains(o.Name, *dump) {
					fmt.Println(buildScript(o.query(), false))
				}
			}
			fmt.Printf("%s: %d/%d obligations ok, gen %.2fs solve %.2fs\n", full, nok, len(rep.Obls), rep.GenTime, time.Since(t0).Seconds())
			var ab []string
			for k, n := range rep.Abstr {
				ab = append(ab, fmt.Sprintf("%s x%d", k, n))
			}
			sort.Strings(ab)
			for _, a := range ab {
				fmt.Println("  abstraction:", a)
			}
		}
	}
}

func main() {
	if len(os.Args) < 2 {
		fmt.Println("usage: govc <vc|check|...>")
		os.Exit(2)
	}
	if d := os.Getenv("GOVC_REPO"); d != "" {
		repoDir = d
	}
	switch os.Args[1] {
	case "vc":
		cmdVC(os.Args[2:])
	case "sweep":
		cmdSweep(os.Args[2:])
	case "check":
		os.Exit(cmdCheck(os.Args[2:]))
	case "bounded":
		cmdBounded(os.Args[2:])
	case "bounded-worker":
		cmdBoundedWorker()
	default:
		fmt.Println("unknown command", os.Args[1])
		os.Exit(2)
	}
}

func cmdBounded(args []string) {
	debug.SetGCPercent(400)
	fs := flag.NewFlagSet("bounded", flag.ExitOnError)
	n := fs.Int("n", 4, "length bound")
	workers := fs.Int("w", 16, "workers")
	fs.Parse(args)
	prog, err := LoadProgram(repoDir, []string{"./..."})
	if err != nil {
		fmt.Println("load error:", err)
		os.Exit(2)
	}
	for _, name := range fs.Args() {
		full := ""
		for f := range prog.Funcs {
			if strings.HasSuffix(f, "."+name) {
				full = f
			}
		}
		var r *BResult
		if *workers <= 1 {
			r, _ = exploreBounded(prog, full, *n, nil, 0, time.Time{})
		} else {
			r = runBoundedParallel(prog, full, *n, *workers, 0)
		}
		b, _ := json.MarshalIndent(r, "", " ")
		fmt.Println(string(b))
	}
}
