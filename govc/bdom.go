package main

// Bounded mode: symbolic variables with finite/interval domains, decided without a solver.

import (
	"fmt"
	"math/big"
	"sort"
	"strings"
)

type ival struct{ lo, hi *big.Int } // inclusive

type Sym struct {
	name string
	dom  []ival // sorted disjoint intervals
	isByte bool
}

func (s *Sym) size() *big.Int {
	n := new(big.Int)
	for _, iv := range s.dom {
		n.Add(n, new(big.Int).Add(new(big.Int).Sub(iv.hi, iv.lo), big.NewInt(1)))
	}
	return n
}

func (s *Sym) singleton() (*big.Int, bool) {
	if len(s.dom) == 1 && s.dom[0].lo.Cmp(s.dom[0].hi) == 0 {
		return s.dom[0].lo, true
	}
	return nil, false
}

func (s *Sym) values(max int) []*big.Int {
	var out []*big.Int
	for _, iv := range s.dom {
		for v := new(big.Int).Set(iv.lo); v.Cmp(iv.hi) <= 0; v = new(big.Int).Add(v, big.NewInt(1)) {
			out = append(out, v)
			if len(out) > max {
				return out
			}
		}
	}
	return out
}

func domFromValues(vs []*big.Int) []ival {
	sort.Slice(vs, func(i, j int) bool { return vs[i].Cmp(vs[j]) < 0 })
	var out []ival
	for _, v := range vs {
		if n := len(out); n > 0 && new(big.Int).Add(out[n-1].hi, big.NewInt(1)).Cmp(v) == 0 {
			out[n-1].hi = v
		} else if n > 0 && out[n-1].hi.Cmp(v) == 0 {
			continue
		} else {
			out = append(out, ival{v, v})
		}
	}
	return out
}

func domString(d []ival) string {
	var parts []string
	for _, iv := range d {
		if iv.lo.Cmp(iv.hi) == 0 {
			parts = append(parts, iv.lo.String())
		} else {
			parts = append(parts, iv.lo.String()+".."+iv.hi.String())
		}
	}
	return "{" + strings.Join(parts, ",") + "}"
}

// table functions: unary functions of a small-domain value, evaluated by lookup
type tblFn struct {
	name string
	f    func(v int64) (int64, bool) // value, ok
	sort string
}

// concrete evaluation of a term under a valuation of symbols. Returns (int, bool-as-int, ok)
type cval struct {
	i *big.Int
	b bool
	isBool bool
}

func (bx *BX) evalC(t *Term, val map[string]*big.Int) (cval, bool) {
	switch t.Op {
	case "const":
		return cval{i: t.K}, true
	case "bool":
		return cval{b: t.B, isBool: true}, true
	case "var":
		if v, ok := val[t.Name]; ok {
			return cval{i: v}, true
		}
		if s, ok := bx.syms[t.Name]; ok {
			if v, ok := s.singleton(); ok {
				return cval{i: v}, true
			}
		}
		return cval{}, false
	case "app":
		if fn, ok := bx.tbls[t.Name]; ok {
			a, ok := bx.evalC(t.Args[0], val)
			if !ok || !a.i.IsInt64() {
				return cval{}, false
			}
			r, ok := fn.f(a.i.Int64())
			if !ok {
				return cval{}, false
			}
			if fn.sort == SBool {
				return cval{b: r != 0, isBool: true}, true
			}
			return cval{i: big.NewInt(r)}, true
		}
		return cval{}, false
	}
	args := make([]cval, len(t.Args))
	// short-circuit for ite / and / or to avoid evaluating undefined parts
	switch t.Op {
	case "ite":
		c, ok := bx.evalC(t.Args[0], val)
		if !ok {
			return cval{}, false
		}
		if c.b {
			return bx.evalC(t.Args[1], val)
		}
		return bx.evalC(t.Args[2], val)
	case "and":
		for _, a := range t.Args {
			c, ok := bx.evalC(a, val)
			if !ok {
				return cval{}, false
			}
			if !c.b {
				return cval{b: false, isBool: true}, true
			}
		}
		return cval{b: true, isBool: true}, true
	case "or":
		for _, a := range t.Args {
			c, ok := bx.evalC(a, val)
			if !ok {
				return cval{}, false
			}
			if c.b {
				return cval{b: true, isBool: true}, true
			}
		}
		return cval{b: false, isBool: true}, true
	}
	for i, a := range t.Args {
		c, ok := bx.evalC(a, val)
		if !ok {
			return cval{}, false
		}
		args[i] = c
	}
	bi := func(f func(z, x, y *big.Int) *big.Int) (cval, bool) {
		return cval{i: f(new(big.Int), args[0].i, args[1].i)}, true
	}
	switch t.Op {
	case "+":
		return bi((*big.Int).Add)
	case "-":
		return bi((*big.Int).Sub)
	case "*":
		return bi((*big.Int).Mul)
	case "div":
		if args[1].i.Sign() == 0 {
			return cval{}, false
		}
		q, _ := new(big.Int).DivMod(args[0].i, args[1].i, new(big.Int))
		return cval{i: q}, true
	case "mod":
		if args[1].i.Sign() == 0 {
			return cval{}, false
		}
		_, m := new(big.Int).DivMod(args[0].i, args[1].i, new(big.Int))
		return cval{i: m}, true
	case "<":
		return cval{b: args[0].i.Cmp(args[1].i) < 0, isBool: true}, true
	case "<=":
		return cval{b: args[0].i.Cmp(args[1].i) <= 0, isBool: true}, true
	case "=":
		if args[0].isBool {
			return cval{b: args[0].b == args[1].b, isBool: true}, true
		}
		return cval{b: args[0].i.Cmp(args[1].i) == 0, isBool: true}, true
	case "not":
		return cval{b: !args[0].b, isBool: true}, true
	case "=>":
		return cval{b: !args[0].b || args[1].b, isBool: true}, true
	}
	return cval{}, false
}

// freeSyms lists the non-singleton symbols of a term.
func (bx *BX) freeSyms(t *Term) []*Sym {
	seen := map[int]bool{}
	found := map[string]*Sym{}
	var walk func(t *Term)
	walk = func(t *Term) {
		if seen[t.id] {
			return
		}
		seen[t.id] = true
		if t.Op == "var" {
			if s, ok := bx.syms[t.Name]; ok {
				if _, single := s.singleton(); !single {
					found[t.Name] = s
				}
			}
			return
		}
		for _, a := range t.Args {
			walk(a)
		}
	}
	walk(t)
	var out []*Sym
	for _, s := range found {
		out = append(out, s)
	}
	sort.Slice(out, func(i, j int) bool { return out[i].name < out[j].name })
	return out
}

// substSingletons replaces singleton-domain symbols by their value.
func (bx *BX) norm(t *Term) *Term {
	if t.Op == "const" || t.Op == "bool" {
		return t
	}
	m := map[string]*Term{}
	any := false
	for _, name := range bx.symOrder {
		s := bx.syms[name]
		if v, ok := s.singleton(); ok {
			m[name] = IntBig(v)
			any = true
		}
	}
	if !any {
		return t
	}
	r := Subst(t, m)
	return bx.foldTbl(r)
}

// foldTbl folds table applications with constant arguments.
func (bx *BX) foldTbl(t *Term) *Term {
	if len(bx.tbls) == 0 {
		return t
	}
	has := false
	seen := map[int]bool{}
	var walk func(t *Term)
	walk = func(t *Term) {
		if seen[t.id] || has {
			return
		}
		seen[t.id] = true
		if t.Op == "app" && len(t.Args) == 1 && t.Args[0].IsConst() {
			if _, ok := bx.tbls[t.Name]; ok {
				has = true
				return
			}
		}
		for _, a := range t.Args {
			walk(a)
		}
	}
	walk(t)
	if !has {
		return t
	}
	c, ok := bx.evalC(t, nil)
	if ok {
		if c.isBool {
			return BoolK(c.b)
		}
		return IntBig(c.i)
	}
	return t
}

// affine: t == k*x + c for the single symbol x
func affine(t *Term, name string) (k, c *big.Int, ok bool) {
	switch t.Op {
	case "const":
		return big.NewInt(0), t.K, true
	case "var":
		if t.Name == name {
			return big.NewInt(1), big.NewInt(0), true
		}
		return nil, nil, false
	case "+", "-":
		k1, c1, ok1 := affine(t.Args[0], name)
		k2, c2, ok2 := affine(t.Args[1], name)
		if !ok1 || !ok2 {
			return nil, nil, false
		}
		if t.Op == "+" {
			return new(big.Int).Add(k1, k2), new(big.Int).Add(c1, c2), true
		}
		return new(big.Int).Sub(k1, k2), new(big.Int).Sub(c1, c2), true
	case "*":
		k1, c1, ok1 := affine(t.Args[0], name)
		k2, c2, ok2 := affine(t.Args[1], name)
		if !ok1 || !ok2 {
			return nil, nil, false
		}
		if k1.Sign() == 0 {
			return new(big.Int).Mul(c1, k2), new(big.Int).Mul(c1, c2), true
		}
		if k2.Sign() == 0 {
			return new(big.Int).Mul(c2, k1), new(big.Int).Mul(c2, c1), true
		}
	}
	return nil, nil, false
}

// splitByCond partitions the domain of the single free symbol of cond into (true part, false part).
func (bx *BX) splitByCond(cond *Term, s *Sym) (tdom, fdom []ival, ok bool) {
	if td, fd, ok := bx.splitFast(cond, s); ok {
		return td, fd, true
	}
	if s.size().Cmp(big.NewInt(4096)) <= 0 {
		var tv, fv []*big.Int
		for _, v := range s.values(5000) {
			c, ok := bx.evalC(cond, map[string]*big.Int{s.name: v})
			if !ok || !c.isBool {
				return nil, nil, false
			}
			if c.b {
				tv = append(tv, v)
			} else {
				fv = append(fv, v)
			}
		}
		return domFromValues(tv), domFromValues(fv), true
	}
	// large interval domain: linear comparison
	return bx.splitLinear(cond, s)
}

func (bx *BX) splitLinear(cond *Term, s *Sym) (tdom, fdom []ival, ok bool) {
	switch cond.Op {
	case "not":
		f, t, ok := bx.splitLinear(cond.Args[0], s)
		return t, f, ok
	case "and":
		cur := s.dom
		var falses []ival
		for _, a := range cond.Args {
			tmp := &Sym{name: s.name, dom: cur}
			t, f, ok := bx.splitLinear(a, tmp)
			if !ok {
				return nil, nil, false
			}
			falses = append(falses, f...)
			cur = t
		}
		return cur, normDom(falses), true
	case "or":
		cur := s.dom
		var trues []ival
		for _, a := range cond.Args {
			tmp := &Sym{name: s.name, dom: cur}
			t, f, ok := bx.splitLinear(a, tmp)
			if !ok {
				return nil, nil, false
			}
			trues = append(trues, t...)
			cur = f
		}
		return normDom(trues), cur, true
	case "<", "<=", "=":
		k1, c1, ok1 := affine(cond.Args[0], s.name)
		k2, c2, ok2 := affine(cond.Args[1], s.name)
		if !ok1 || !ok2 {
			return nil, nil, false
		}
		k := new(big.Int).Sub(k1, k2) // k*x + c  op  0
		c := new(big.Int).Sub(c1, c2)
		if k.Sign() == 0 {
			var b bool
			switch cond.Op {
			case "<":
				b = c.Sign() < 0
			case "<=":
				b = c.Sign() <= 0
			default:
				b = c.Sign() == 0
			}
			if b {
				return s.dom, nil, true
			}
			return nil, s.dom, true
		}
		// predicate on x evaluated at interval pieces: find thresholds
		pred := func(x *big.Int) bool {
			v := new(big.Int).Add(new(big.Int).Mul(k, x), c)
			switch cond.Op {
			case "<":
				return v.Sign() < 0
			case "<=":
				return v.Sign() <= 0
			}
			return v.Sign() == 0
		}
		// critical point: x0 = -c/k (floor) ; predicate is monotone (or point for =) -> examine x0-1,x0,x0+1 boundaries
		x0 := new(big.Int).Div(new(big.Int).Neg(c), k)
		cuts := []*big.Int{new(big.Int).Sub(x0, big.NewInt(1)), x0, new(big.Int).Add(x0, big.NewInt(1)), new(big.Int).Add(x0, big.NewInt(2))}
		for _, iv := range s.dom {
			// split iv at cuts
			pts := []*big.Int{iv.lo}
			for _, cpt := range cuts {
				if cpt.Cmp(iv.lo) > 0 && cpt.Cmp(iv.hi) <= 0 {
					pts = append(pts, cpt)
				}
			}
			for i, p := range pts {
				hi := iv.hi
				if i+1 < len(pts) {
					hi = new(big.Int).Sub(pts[i+1], big.NewInt(1))
				}
				piece := ival{p, hi}
				if pred(p) {
					tdom = append(tdom, piece)
				} else {
					fdom = append(fdom, piece)
				}
			}
		}
		return normDom(tdom), normDom(fdom), true
	}
	return nil, nil, false
}

func normDom(d []ival) []ival {
	if len(d) == 0 {
		return nil
	}
	sort.Slice(d, func(i, j int) bool { return d[i].lo.Cmp(d[j].lo) < 0 })
	out := []ival{d[0]}
	for _, iv := range d[1:] {
		n := len(out)
		if new(big.Int).Add(out[n-1].hi, big.NewInt(1)).Cmp(iv.lo) >= 0 {
			if iv.hi.Cmp(out[n-1].hi) > 0 {
				out[n-1].hi = iv.hi
			}
		} else {
			out = append(out, iv)
		}
	}
	return out
}

// bounds computes a conservative interval for an Int term (nil = unbounded).
func (bx *BX) bounds(t *Term) (lo, hi *big.Int) {
	switch t.Op {
	case "const":
		return t.K, t.K
	case "var":
		if s, ok := bx.syms[t.Name]; ok && len(s.dom) > 0 {
			return s.dom[0].lo, s.dom[len(s.dom)-1].hi
		}
		return nil, nil
	case "+":
		l1, h1 := bx.bounds(t.Args[0])
		l2, h2 := bx.bounds(t.Args[1])
		if l1 == nil || l2 == nil {
			return nil, nil
		}
		return new(big.Int).Add(l1, l2), new(big.Int).Add(h1, h2)
	case "-":
		l1, h1 := bx.bounds(t.Args[0])
		l2, h2 := bx.bounds(t.Args[1])
		if l1 == nil || l2 == nil {
			return nil, nil
		}
		return new(big.Int).Sub(l1, h2), new(big.Int).Sub(h1, l2)
	case "*":
		l1, h1 := bx.bounds(t.Args[0])
		l2, h2 := bx.bounds(t.Args[1])
		if l1 == nil || l2 == nil {
			return nil, nil
		}
		ps := []*big.Int{new(big.Int).Mul(l1, l2), new(big.Int).Mul(l1, h2), new(big.Int).Mul(h1, l2), new(big.Int).Mul(h1, h2)}
		lo, hi = ps[0], ps[0]
		for _, p := range ps[1:] {
			if p.Cmp(lo) < 0 {
				lo = p
			}
			if p.Cmp(hi) > 0 {
				hi = p
			}
		}
		return lo, hi
	case "ite":
		l1, h1 := bx.bounds(t.Args[1])
		l2, h2 := bx.bounds(t.Args[2])
		if l1 == nil || l2 == nil {
			return nil, nil
		}
		lo, hi = l1, h1
		if l2.Cmp(lo) < 0 {
			lo = l2
		}
		if h2.Cmp(hi) > 0 {
			hi = h2
		}
		return lo, hi
	case "mod":
		if t.Args[1].IsConst() && t.Args[1].K.Sign() > 0 {
			return big.NewInt(0), new(big.Int).Sub(t.Args[1].K, big.NewInt(1))
		}
	case "div":
		if t.Args[1].IsConst() && t.Args[1].K.Sign() > 0 {
			l1, h1 := bx.bounds(t.Args[0])
			if l1 == nil {
				return nil, nil
			}
			fl := func(x *big.Int) *big.Int { q, _ := new(big.Int).DivMod(x, t.Args[1].K, new(big.Int)); return q }
			return fl(l1), fl(h1)
		}
	case "app":
		if fn, ok := bx.tbls[t.Name]; ok && fn.sort == SInt {
			// enumerate if argument is a small-domain symbol
			fs := bx.freeSyms(t.Args[0])
			if len(fs) == 1 && fs[0].size().Cmp(big.NewInt(4096)) <= 0 {
				for _, v := range fs[0].values(5000) {
					c, ok := bx.evalC(t, map[string]*big.Int{fs[0].name: v})
					if !ok {
						return nil, nil
					}
					if lo == nil || c.i.Cmp(lo) < 0 {
						lo = c.i
					}
					if hi == nil || c.i.Cmp(hi) > 0 {
						hi = c.i
					}
				}
				return lo, hi
			}
		}
	}
	return nil, nil
}

func (bx *BX) witness() map[string]*big.Int {
	w := map[string]*big.Int{}
	for _, n := range bx.symOrder {
		s := bx.syms[n]
		if len(s.dom) > 0 {
			w[n] = s.dom[0].lo
		}
	}
	return w
}

func fmtWitness(w map[string]*big.Int) string {
	var ks []string
	for k := range w {
		ks = append(ks, k)
	}
	sort.Strings(ks)
	var parts []string
	for _, k := range ks {
		parts = append(parts, fmt.Sprintf("%s=%s", k, w[k]))
	}
	return strings.Join(parts, " ")
}

// ---- fast int64 path for small domains

type fastEnv struct {
	bx   *BX
	name string
	v    int64
}

const fastLimit = int64(1) << 61

// evalFast evaluates t with symbol name := v using int64 arithmetic; ok=false on anything unusual.
func (e *fastEnv) eval(t *Term) (iv int64, bv bool, ok bool) {
	switch t.Op {
	case "const":
		if t.K.IsInt64() {
			x := t.K.Int64()
			if x > -fastLimit && x < fastLimit {
				return x, false, true
			}
		}
		return 0, false, false
	case "bool":
		return 0, t.B, true
	case "var":
		if t.Name == e.name {
			return e.v, false, true
		}
		if s, ok := e.bx.syms[t.Name]; ok {
			if v, ok := s.singleton(); ok && v.IsInt64() {
				x := v.Int64()
				if x > -fastLimit && x < fastLimit {
					return x, false, true
				}
			}
		}
		return 0, false, false
	case "app":
		if fn, ok := e.bx.tbls[t.Name]; ok {
			a, _, ok := e.eval(t.Args[0])
			if !ok {
				return 0, false, false
			}
			r, ok := fn.f(a)
			if !ok {
				return 0, false, false
			}
			if fn.sort == SBool {
				return 0, r != 0, true
			}
			return r, false, true
		}
		return 0, false, false
	case "ite":
		_, c, ok := e.eval(t.Args[0])
		if !ok {
			return 0, false, false
		}
		if c {
			return e.eval(t.Args[1])
		}
		return e.eval(t.Args[2])
	case "and":
		for _, a := range t.Args {
			_, b, ok := e.eval(a)
			if !ok {
				return 0, false, false
			}
			if !b {
				return 0, false, true
			}
		}
		return 0, true, true
	case "or":
		for _, a := range t.Args {
			_, b, ok := e.eval(a)
			if !ok {
				return 0, false, false
			}
			if b {
				return 0, true, true
			}
		}
		return 0, false, true
	case "not":
		_, b, ok := e.eval(t.Args[0])
		return 0, !b, ok
	case "=>":
		_, a, ok1 := e.eval(t.Args[0])
		_, b, ok2 := e.eval(t.Args[1])
		return 0, !a || b, ok1 && ok2
	}
	if len(t.Args) != 2 {
		return 0, false, false
	}
	a, ab, ok1 := e.eval(t.Args[0])
	b, bb, ok2 := e.eval(t.Args[1])
	if !ok1 || !ok2 {
		return 0, false, false
	}
	switch t.Op {
	case "+":
		r := a + b
		return r, false, r > -fastLimit && r < fastLimit
	case "-":
		r := a - b
		return r, false, r > -fastLimit && r < fastLimit
	case "*":
		if a > -(1<<30) && a < 1<<30 && b > -(1<<30) && b < 1<<30 {
			return a * b, false, true
		}
		return 0, false, false
	case "div", "mod":
		if b <= 0 {
			return 0, false, false
		}
		q := a / b
		m := a % b
		if m < 0 {
			m += b
			q--
		}
		if t.Op == "div" {
			return q, false, true
		}
		return m, false, true
	case "<":
		return 0, a < b, true
	case "<=":
		return 0, a <= b, true
	case "=":
		if t.Args[0].Sort == SBool {
			return 0, ab == bb, true
		}
		return 0, a == b, true
	}
	return 0, false, false
}

func (bx *BX) splitFast(cond *Term, s *Sym) (tdom, fdom []ival, ok bool) {
	if len(s.dom) == 0 {
		return nil, nil, false
	}
	lo, hi := s.dom[0].lo, s.dom[len(s.dom)-1].hi
	if !lo.IsInt64() || !hi.IsInt64() {
		return nil, nil, false
	}
	l, h := lo.Int64(), hi.Int64()
	if l < -fastLimit || h > fastLimit || h-l > 4096 {
		return nil, nil, false
	}
	e := &fastEnv{bx: bx, name: s.name}
	add := func(d []ival, v int64) []ival {
		if n := len(d); n > 0 && d[n-1].hi.Int64() == v-1 {
			d[n-1].hi = big.NewInt(v)
			return d
		}
		b := big.NewInt(v)
		return append(d, ival{b, b})
	}
	for _, iv := range s.dom {
		for v := iv.lo.Int64(); v <= iv.hi.Int64(); v++ {
			e.v = v
			_, b, ok := e.eval(cond)
			if !ok {
				return nil, nil, false
			}
			if b {
				tdom = add(tdom, v)
			} else {
				fdom = add(fdom, v)
			}
		}
	}
	return tdom, fdom, true
}
