package main

import (
	"os"
	"fmt"
	"go/ast"
	"go/token"
	"go/types"
	"strings"
)

func (env *SpecEnv) ghostCall(name string, x *ast.CallExpr) (Val, bool) {
	vc := env.vc
	switch name {
	case "beqold":
		a := env.eval(x.Args[0])
		n := *env
		n.st = env.old
		b := n.eval(x.Args[1])
		rd := func(st *State, v Val, k *Term) *Term {
			if kindOf(v.T) == KString {
				return Select(Select(vc.strMem(), v.C[0]), Add(v.C[1], k))
			}
			et := elemTypeOf(v.T)
			cp := layout(et)[0]
			h := vc.heapIn(st, heapNameFor(et, cp), heapSort(cp))
			return Select(Select(h, v.C[0]), Add(v.C[1], k))
		}
		vc.freshN++
		k := Var(fmt.Sprintf("k!q%d", vc.freshN), SInt)
		return boolVal(And(Eq(a.Len(), b.Len()), Forall([]*Term{k}, Implies(And(Le(Zero, k), Lt(k, a.Len())), Eq(rd(env.st, a, k), rd(env.old, b, k)))))), true
	case "faddr":
		// faddr(p, "field"): identity of &p.field
		pv := env.eval(x.Args[0])
		if bl, ok := x.Args[1].(*ast.BasicLit); ok && kindOf(pv.T) == KPtr {
			lo, _, _, ok := fieldRange(elemTypeOf(pv.T), strings.Trim(bl.Value, `"`))
			if ok {
				return intVal(App("box_ptr", SInt, App("fieldptr", SInt, pv.C[0], pv.C[1], IntK(int64(lo))), Zero)), true
			}
		}
		env.errorf("bad faddr")
		return intVal(Zero), true
	case "evres":
		i := env.eval(x.Args[0]).C[0]
		k := int64(0)
		if len(x.Args) > 1 {
			k, _ = env.eval(x.Args[1]).C[0].Int64()
		}
		return intVal(Select(Select(vc.heapIn(env.st, "$TraceArgs", SMem), i), IntK(100+k))), true
	case "evresarr", "evreslen", "evresoff":
		i := env.eval(x.Args[0]).C[0]
		k, _ := env.eval(x.Args[1]).C[0].Int64()
		base := map[string]int64{"evresarr": 500, "evreslen": 600, "evresoff": 700}[name]
		return intVal(Select(Select(vc.heapIn(env.st, "$TraceArgs", SMem), i), IntK(base+k))), true
	case "evarr", "evlen", "evoff":
		// evarr(q, i) / evlen(q, i): backing array id / length of the i-th (slice or string) argument of the call at position q
		i := env.eval(x.Args[0]).C[0]
		k, _ := env.eval(x.Args[1]).C[0].Int64()
		base := int64(300)
		if name == "evlen" {
			base = 400
		} else if name == "evoff" {
			base = 800
		}
		return intVal(Select(Select(vc.heapIn(env.st, "$TraceArgs", SMem), i), IntK(base+k))), true
	case "evresnil":
		// evresnil(q, k): the k-th result of the call at trace position q was nil
		i := env.eval(x.Args[0]).C[0]
		k := int64(0)
		if len(x.Args) > 1 {
			k, _ = env.eval(x.Args[1]).C[0].Int64()
		}
		return boolVal(Eq(Select(Select(vc.heapIn(env.st, "$TraceArgs", SMem), i), IntK(200+k)), One)), true
	case "heaparr":
		// heaparr(x): x's backing array is not the array of a package-level variable (ids below 2^20 are reserved for those)
		v := env.eval(x.Args[0])
		return boolVal(Le(IntK(1<<20), v.C[0])), true
	case "forallk":
		// forallk(k, P): unbounded integer quantifier
		idn, ok := x.Args[0].(*ast.Ident)
		if !ok {
			env.errorf("forallk: identifier expected")
			return boolVal(True), true
		}
		vc.freshN++
		k := Var(fmt.Sprintf("%s!q%d", idn.Name, vc.freshN), SInt)
		n := env.withNames(map[string]Val{idn.Name: intVal(k)})
		body := n.eval(x.Args[1])
		env.failed = env.failed || n.failed
		return boolVal(Forall([]*Term{k}, body.C[0])), true
	case "methodval":
		// methodval("full method name", recv): the bound method value
		if bl, ok := x.Args[0].(*ast.BasicLit); ok {
			rv := env.eval(x.Args[1])
			return intVal(App("bound:"+strings.Trim(bl.Value, `"`), SInt, rv.C...)), true
		}
	case "rawbyte":
		// rawbyte(arr, idx): the byte at a raw (array id, index) location of the byte memory in this state
		a := env.eval(x.Args[0]).C[0]
		i := env.eval(x.Args[1]).C[0]
		cp := layout(tByte)[0]
		h := vc.heapIn(env.st, heapNameFor(tByte, cp), heapSort(cp))
		return mkVal(tByte, Select(Select(h, a), i)), true
	case "emptykey":
		return intVal(App("ckey_empty", SInt)), true
	case "rawrow":
		// rawrow(a): the whole byte array with id a in this state (array-valued; only for equalities)
		a := env.eval(x.Args[0]).C[0]
		cp := layout(tByte)[0]
		h := vc.heapIn(env.st, heapNameFor(tByte, cp), heapSort(cp))
		return Val{T: nil, C: []*Term{Select(h, a)}}, true
	case "nextarr":
		return intVal(vc.heapIn(env.st, "$nextArr", SInt)), true
	case "tracelen":
		return intVal(vc.heapIn(env.st, "$TraceLen", SInt)), true
	case "ghost":
		// ghost("name"): a named ghost integer that every non-pure call may change; what a particular call does to it
		// is said by that call's `assumes` clauses (e.g. "the last Next ended in a recoverable parse error")
		if lit, ok := x.Args[0].(*ast.BasicLit); ok {
			return intVal(vc.heapIn(env.st, "$Ghost:"+strings.Trim(lit.Value, "\""), SInt)), true
		}
	case "fuel":
		// fuel(): ghost measure - the number of non-error tokens the lexer/parser driving this function has not yet
		// handed out. Never negative, never grows; which calls make it strictly smaller is said by `assumes` clauses.
		return intVal(vc.heapIn(env.st, "$Fuel", SInt)), true
	case "ev":
		// ev(i): event code at trace position i; evarg(i, j): j-th argument
		i := env.eval(x.Args[0]).C[0]
		return intVal(Select(vc.heapIn(env.st, "$Trace", SArr), i)), true
	case "evarg":
		i := env.eval(x.Args[0]).C[0]
		j := env.eval(x.Args[1]).C[0]
		return intVal(Select(Select(vc.heapIn(env.st, "$TraceArgs", SMem), i), j)), true
	case "evcode":
		// evcode("name"): the integer code of an event name
		if bl, ok := x.Args[0].(*ast.BasicLit); ok {
			return intVal(IntK(eventCode(strings.Trim(bl.Value, `"`)))), true
		}
	case "id":
		// id(x): scalar identity of a reference-like value (pointer -> boxed, iface -> ival, func -> fn, bytes/string -> content key)
		v := env.eval(x.Args[0])
		return intVal(vc.identityOfIn(env.st, v)), true
	case "dyn":
		v := env.eval(x.Args[0])
		return intVal(v.C[0]), true
	case "skey":
		v := env.eval(x.Args[0])
		return intVal(vc.mapKeyTerm(v)), true
	case "bkey":
		// key of the string made from byte slice contents: string(b) as map key
		v := env.eval(x.Args[0])
		return intVal(vc.bytesKey(env.st, v)), true
	}
	return Val{}, false
}

func (vc *VC) identityOfIn(st *State, v Val) *Term {
	if v.T != nil && kindOf(v.T) == KSlice && kindOf(elemTypeOf(v.T)) == KInt && st != nil {
		return vc.bytesKey(st, v)
	}
	if v.T != nil && kindOf(v.T) == KString {
		return vc.stringKey(v)
	}
	return vc.identityOf(v)
}

// pureArgTerms: what an uninterpreted pure function depends on for one argument. A byte slice or string is read by
// the function, so the argument is its CONTENT key (row contents, offset, length) - not the slice header, which
// would make two calls on the same header but different memory contents equal.
func (vc *VC) pureArgTerms(st *State, a Val) []*Term {
	if a.T != nil && ((kindOf(a.T) == KSlice && kindOf(elemTypeOf(a.T)) == KInt) || kindOf(a.T) == KString) {
		return []*Term{vc.identityOfIn(st, a)}
	}
	return a.C
}

func (vc *VC) identityOf(v Val) *Term {
	if v.T == nil {
		if len(v.C) > 0 && v.C[0].Sort == SInt {
			return v.C[0]
		}
		return Zero
	}
	switch kindOf(v.T) {
	case KPtr:
		return App("box_ptr", SInt, v.C[0], v.C[1])
	case KIface:
		return v.C[1]
	}
	if len(v.C) == 1 && v.C[0].Sort == SInt {
		return v.C[0]
	}
	if len(v.C) == 1 && v.C[0].Sort == SBool {
		return Ite(v.C[0], One, Zero)
	}
	allInt := true
	for _, c := range v.C {
		if c.Sort != SInt {
			allInt = false
		}
	}
	if allInt {
		return App(fmt.Sprintf("box_%d", len(v.C)), SInt, v.C...)
	}
	return vc.fresh("id", SInt)
}

// bytesKey: the map key of string(b); determined by contents -> uninterpreted over (array contents, off, len)
func (vc *VC) bytesKey(st *State, b Val) *Term {
	if b.Len() == Zero {
		return App("ckey_empty", SInt)
	}
	if o, ok := vc.origins[b.C[0].id]; ok && b.C[1] == Zero {
		return App("ckey", SInt, o.row, o.off, b.C[2])
	}
	et := elemTypeOf(b.T)
	cp := layout(et)[0]
	h := vc.heap(st, heapNameFor(et, cp), heapSort(cp))
	return App("ckey", SInt, Select(h, b.Arr()), b.Off(), b.Len())
}

var eventCodes = map[string]int64{}

func eventCode(name string) int64 {
	c, ok := eventCodes[name]
	if !ok {
		c = int64(len(eventCodes)) + 1
		eventCodes[name] = c
	}
	return c
}

func (vc *VC) emitEventSparse(st *State, name string, args []*Term) {
	if os.Getenv("GOVC_DEBUG_DEFER") != "" {
		fmt.Fprintf(os.Stderr, "  event %s\n", name)
	}
	n := vc.heap(st, "$TraceLen", SInt)
	tr := vc.heap(st, "$Trace", SArr)
	st.heaps["$Trace"] = Store(tr, n, IntK(eventCode(name)))
	ta := vc.heap(st, "$TraceArgs", SMem)
	row := Select(ta, n)
	for i, a := range args {
		if a.Sort != SInt || (a == Zero && i >= 8) {
			continue
		}
		row = Store(row, IntK(int64(i)), a)
	}
	st.heaps["$TraceArgs"] = Store(ta, n, row)
	st.heaps["$TraceLen"] = Add(n, One)
}

// emitEvent appends an event to the ghost trace.
func (vc *VC) emitEvent(st *State, name string, args []*Term) {
	if os.Getenv("GOVC_DEBUG_DEFER") != "" {
		fmt.Fprintf(os.Stderr, "  event %s\n", name)
	}
	n := vc.heap(st, "$TraceLen", SInt)
	tr := vc.heap(st, "$Trace", SArr)
	st.heaps["$Trace"] = Store(tr, n, IntK(eventCode(name)))
	ta := vc.heap(st, "$TraceArgs", SMem)
	row := Select(ta, n)
	for i, a := range args {
		if a.Sort != SInt {
			continue
		}
		row = Store(row, IntK(int64(i)), a)
	}
	st.heaps["$TraceArgs"] = Store(ta, n, row)
	st.heaps["$TraceLen"] = Add(n, One)
}

// ---- calls

func (vc *VC) calleeOf(x *ast.CallExpr) (*types.Func, *types.Selection) {
	switch f := unparen(x.Fun).(type) {
	case *ast.Ident:
		if fn, ok := vc.info.ObjectOf(f).(*types.Func); ok {
			return fn, nil
		}
	case *ast.SelectorExpr:
		if sel := vc.info.Selections[f]; sel != nil {
			if fn, ok := sel.Obj().(*types.Func); ok {
				return fn, sel
			}
			return nil, nil
		}
		if fn, ok := vc.info.ObjectOf(f.Sel).(*types.Func); ok {
			return fn, nil
		}
	}
	return nil, nil
}

// callWrites: which element-type memories may a call write (syntactic, for loop havoc).
func (vc *VC) callWrites(x *ast.CallExpr) ([]types.Type, bool) {
	if tv, ok := vc.info.Types[x.Fun]; ok && tv.IsType() {
		return nil, false // conversion
	}
	if id, ok := unparen(x.Fun).(*ast.Ident); ok {
		if b, ok := vc.info.ObjectOf(id).(*types.Builtin); ok {
			switch b.Name() {
			case "copy", "append":
				return []types.Type{elemTypeOf(vc.typeOf(x.Args[0]))}, false
			case "delete":
				return nil, true
			}
			return nil, false
		}
	}
	fn, _ := vc.calleeOf(x)
	if fn == nil {
		return nil, true
	}
	con := vc.prog.Contracts[funcFullName(fn)]
	if con == nil {
		if isKnownPure(funcFullName(fn)) {
			return nil, false
		}
		return nil, true
	}
	if con.Pure || (len(con.Modifies) == 0 && !con.NoFrame) {
		return nil, false
	}
	if con.NoFrame {
		return nil, true
	}
	// determine types from modifies expressions using the callee signature
	var out []types.Type
	sig := fn.Type().(*types.Signature)
	ptypes := map[string]types.Type{}
	names := paramNames(con, sig)
	k := 0
	if sig.Recv() != nil {
		ptypes[names[0]] = sig.Recv().Type()
		k = 1
	}
	for i := 0; i < sig.Params().Len(); i++ {
		ptypes[names[k+i]] = sig.Params().At(i).Type()
	}
	for _, m := range con.Modifies {
		t := staticTypeOfSpec(m.Expr, ptypes, vc)
		if t == nil {
			return nil, true
		}
		out = append(out, t)
	}
	return out, false
}

// staticTypeOfSpec returns the element type whose memory a modifies-expression denotes.
func staticTypeOfSpec(e ast.Expr, ptypes map[string]types.Type, vc *VC) types.Type {
	var typeOf func(e ast.Expr) types.Type
	typeOf = func(e ast.Expr) types.Type {
		switch x := e.(type) {
		case *ast.ParenExpr:
			return typeOf(x.X)
		case *ast.Ident:
			return ptypes[x.Name]
		case *ast.SelectorExpr:
			bt := typeOf(x.X)
			if bt == nil {
				return nil
			}
			if kindOf(bt) == KPtr {
				bt = elemTypeOf(bt)
			}
			if _, _, ft, ok := fieldRange(bt, x.Sel.Name); ok {
				return ft
			}
		case *ast.SliceExpr:
			return typeOf(x.X)
		case *ast.IndexExpr:
			bt := typeOf(x.X)
			if bt != nil {
				return elemTypeOf(bt)
			}
		case *ast.StarExpr:
			bt := typeOf(x.X)
			if bt != nil {
				return elemTypeOf(bt)
			}
		}
		return nil
	}
	switch x := unparen(e).(type) {
	case *ast.SliceExpr:
		if t := typeOf(x.X); t != nil {
			return elemTypeOf(t)
		}
	case *ast.SelectorExpr:
		// p.f : memory of the struct type containing f
		bt := typeOf(x.X)
		if bt != nil && kindOf(bt) == KPtr {
			return elemTypeOf(bt)
		}
	case *ast.StarExpr:
		if t := typeOf(x.X); t != nil {
			return elemTypeOf(t)
		}
	case *ast.Ident:
		if t := typeOf(x); t != nil && kindOf(t) == KSlice {
			return elemTypeOf(t)
		}
	case *ast.IndexExpr:
		if t := typeOf(x.X); t != nil {
			return elemTypeOf(t)
		}
	}
	return nil
}

var knownPure = map[string]bool{}

func isKnownPure(full string) bool { return knownPure[full] }

func paramNames(con *Contract, sig *types.Signature) []string {
	if con != nil && len(con.Params) > 0 {
		return con.Params
	}
	var names []string
	if r := sig.Recv(); r != nil {
		n := r.Name()
		if n == "" || n == "_" {
			n = "recv"
		}
		names = append(names, n)
	}
	for i := 0; i < sig.Params().Len(); i++ {
		n := sig.Params().At(i).Name()
		if n == "" || n == "_" {
			n = fmt.Sprintf("p%d", i)
		}
		names = append(names, n)
	}
	return names
}

func resultNames(con *Contract, sig *types.Signature) []string {
	if con != nil && len(con.Results) > 0 {
		return con.Results
	}
	var names []string
	n := sig.Results().Len()
	for i := 0; i < n; i++ {
		nm := sig.Results().At(i).Name()
		if nm == "" || nm == "_" {
			if n == 1 {
				nm = "res"
			} else {
				nm = fmt.Sprintf("res%d", i)
			}
		}
		names = append(names, nm)
	}
	return names
}

func (vc *VC) evalCall(x *ast.CallExpr, st *State) Val {
	rt := vc.typeOf(x)
	// conversion
	if tv, ok := vc.info.Types[x.Fun]; ok && tv.IsType() {
		v := vc.eval(x.Args[0], st)
		return vc.convertTo(v, tv.Type, st, x)
	}
	// builtin
	if id, ok := unparen(x.Fun).(*ast.Ident); ok {
		if b, ok := vc.info.ObjectOf(id).(*types.Builtin); ok {
			return vc.evalBuiltin(b.Name(), x, st)
		}
	}
	fn, sel := vc.calleeOf(x)
	if fn != nil && funcFullName(fn) == "github.com/matryer/try.Do" && len(x.Args) == 1 {
		if lit, ok := unparen(x.Args[0]).(*ast.FuncLit); ok {
			// A-try: try.Do(f) = the last execution of f's body (earlier failed attempts leave no effect); its error is f's error
			res := vc.inlineClosure(lit, st)
			if tup, ok := res.T.(*types.Tuple); ok && tup.Len() == 2 {
				n0 := len(layout(tup.At(0).Type()))
				return Val{T: tup.At(1).Type(), C: res.C[n0:]}
			}
			return vc.opaque(rt, "try")
		}
	}
	if fn != nil && fn.Pkg() != nil && fn.Pkg().Path() == "math" {
		// floats are an uninterpreted sort; NaN-ness is the one float fact the path state machine relies on:
		// math.NaN() is a constant with isnan, math.IsNaN is that predicate
		switch fn.Name() {
		case "NaN":
			nan := App("flt_nan", "Flt")
			vc.assumeOnce("flt_nan_isnan", App("flt_isnan", SBool, nan))
			return mkVal(rt, nan)
		case "IsNaN":
			if len(x.Args) == 1 {
				a := vc.eval(x.Args[0], st)
				if len(a.C) == 1 && a.C[0].Sort == "Flt" {
					return mkVal(rt, App("flt_isnan", SBool, a.C[0]))
				}
			}
		}
	}
	if fn == nil {
		// call through function value
		fv := vc.eval(x.Fun, st)
		var args []Val
		for _, a := range x.Args {
			args = append(args, vc.eval(a, st))
		}
		return vc.callFuncValue(x, fv, args, st)
	}
	sig := fn.Type().(*types.Signature)
	var args []Val
	if sig.Recv() != nil && sel != nil {
		recv := vc.eval(unparen(x.Fun).(*ast.SelectorExpr).X, st)
		// adjust pointer/value receiver, following embedded-field path
		recv = vc.adjustRecv(recv, sel, sig, x, st)
		args = append(args, recv)
	}
	if len(x.Args) == 1 && sig.Params().Len() > 1 {
		// f(g()) multi-value
		tv := vc.eval(x.Args[0], st)
		if tup, ok := tv.T.(*types.Tuple); ok {
			off := 0
			for i := 0; i < tup.Len(); i++ {
				k := len(layout(tup.At(i).Type()))
				args = append(args, Val{T: tup.At(i).Type(), C: tv.C[off : off+k]})
				off += k
			}
		}
	} else {
		np := sig.Params().Len()
		for i, a := range x.Args {
			v := vc.eval(a, st)
			if sig.Variadic() && i >= np-1 && !x.Ellipsis.IsValid() {
				args = append(args, v) // packed below
				continue
			}
			var pt types.Type
			if i < np {
				pt = sig.Params().At(i).Type()
			}
			if pt != nil {
				v = vc.convertTo(v, pt, st, a)
			}
			args = append(args, v)
		}
		if sig.Variadic() && !x.Ellipsis.IsValid() {
			// pack variadic args into a fresh slice
			base := 0
			if sig.Recv() != nil && sel != nil {
				base = 1
			}
			fixed := base + np - 1
			vt := sig.Params().At(np - 1).Type()
			et := elemTypeOf(vt)
			extra := args[fixed:]
			var sv Val
			if len(extra) == 0 {
				sv = zeroVal(vt)
			} else {
				arr := vc.alloc(st)
				for i, e := range extra {
					vc.storeComps(st, et, arr, IntK(int64(i)), 0, vc.convertTo(e, et, st, x))
				}
				n := IntK(int64(len(extra)))
				sv = mkVal(vt, arr, Zero, n, n)
			}
			args = append(args[:fixed:fixed], sv)
		}
	}
	full := funcFullName(fn)
	// interface method call: dispatch by static method
	return vc.callNamed(x, full, fn, sig, args, st, rt)
}

func (vc *VC) adjustRecv(recv Val, sel *types.Selection, sig *types.Signature, n ast.Node, st *State) Val {
	// follow embedded fields
	idx := sel.Index()
	cur := recv
	for _, i := range idx[:len(idx)-1] {
		if kindOf(cur.T) == KPtr {
			vc.oblige(st, "nil.deref", n, "", Ne(cur.C[0], Zero))
			cur = vc.loadElem(st, elemTypeOf(cur.T), cur.C[0], cur.C[1])
		}
		stt := cur.T.Underlying().(*types.Struct)
		f := stt.Field(i)
		lo, hi, ft, _ := fieldRange(cur.T, f.Name())
		cur = Val{T: ft, C: cur.C[lo:hi]}
	}
	want := sig.Recv().Type()
	if kindOf(cur.T) == KIface {
		return cur
	}
	_, wantPtr := want.Underlying().(*types.Pointer)
	_, havePtr := cur.T.Underlying().(*types.Pointer)
	if wantPtr && !havePtr {
		// addressable value: take its address if it lives in memory
		if se, ok := n.(*ast.CallExpr); ok {
			if fx, ok := unparen(se.Fun).(*ast.SelectorExpr); ok && len(idx) == 1 {
				loc, ok := vc.lvalue(fx.X, st, true)
				if ok && loc.kind == 1 && loc.lo == 0 && len(layout(loc.t)) == len(layout(loc.elem)) {
					return mkVal(want, loc.arr, loc.idx)
				}
				if ok && loc.kind == 1 {
					// pointer to a struct field inside a heap object: (arr, idx) with field offset is not representable
					// pointer to a field of a heap object: identity only (the field's own state is not modelled through it)
					return Val{T: want, C: []*Term{App("fieldptr", SInt, loc.arr, loc.idx, IntK(int64(loc.lo))), Zero}}
				}
			}
		}
		vc.abstraction("pointer receiver on non-addressable/local value")
		arr := vc.alloc(st)
		vc.storeComps(st, cur.T, arr, Zero, 0, cur)
		return mkVal(want, arr, Zero)
	}
	if !wantPtr && havePtr {
		vc.oblige(st, "nil.deref", n, "", Ne(cur.C[0], Zero))
		return vc.loadElem(st, elemTypeOf(cur.T), cur.C[0], cur.C[1])
	}
	return cur
}

func (vc *VC) callFuncValue(x *ast.CallExpr, fv Val, args []Val, st *State) Val {
	rt := vc.typeOf(x)
	f := fv.C[0]
	// bound method value of a known method?
	if f.Op == "app" && strings.HasPrefix(f.Name, "bound:") {
		full := strings.TrimPrefix(f.Name, "bound:")
		if fi := vc.lookupFuncObj(full); fi != nil {
			sig := fi.Type().(*types.Signature)
			recvT := sig.Recv().Type()
			recv := Val{T: recvT, C: f.Args}
			if len(recv.C) == len(layout(recvT)) {
				return vc.callNamed(x, full, fi, sig, append([]Val{recv}, args...), st, rt)
			}
		}
	}
	if f.Op == "app" && strings.HasPrefix(f.Name, "fn:") {
		full := strings.TrimPrefix(f.Name, "fn:")
		if fi := vc.lookupFuncObj(full); fi != nil {
			sig := fi.Type().(*types.Signature)
			return vc.callNamed(x, full, fi, sig, args, st, rt)
		}
	}
	vc.abstraction("call through function value (havoc)")
	vc.oblige(st, "nil.deref", x, "", Ne(f, Zero))
	var targs []*Term
	targs = append(targs, f)
	for _, a := range args {
		targs = append(targs, vc.identityOf(a))
	}
	vc.havocAll(st, "call through function value")
	// results: fresh values of the result types, recorded in the event like those of a contract call
	// (slots 100+k identity, 200+k nil flag)
	var res Val
	var rvals []Val
	if sig, ok := vc.typeOf(x.Fun).Underlying().(*types.Signature); ok && sig.Results().Len() > 0 {
		var c []*Term
		for i := 0; i < sig.Results().Len(); i++ {
			v := vc.freshVal(sig.Results().At(i).Type(), "dynret")
			rvals = append(rvals, v)
			c = append(c, v.C...)
		}
		if len(rvals) == 1 {
			res = rvals[0]
		} else {
			res = Val{T: sig.Results(), C: c}
		}
	} else {
		res = vc.opaque(rt, "dyncall")
	}
	if len(rvals) > 0 {
		for len(targs) < 100 {
			targs = append(targs, Zero)
		}
		for _, v := range rvals {
			targs = append(targs, vc.identityOfIn(st, v))
		}
		for len(targs) < 200 {
			targs = append(targs, Zero)
		}
		for _, v := range rvals {
			nilFlag := Zero
			switch kindOf(v.T) {
			case KIface, KPtr, KSlice, KMap, KFunc:
				nilFlag = Ite(Eq(v.C[0], Zero), One, Zero)
			}
			targs = append(targs, nilFlag)
		}
	}
	vc.emitEventSparse(st, "CallFuncValue", targs)
	return res
}

func (vc *VC) lookupFuncObj(full string) *types.Func {
	if fi, ok := vc.prog.Funcs[full]; ok {
		return fi.Obj
	}
	return vc.prog.lookupFuncByName(full)
}

func (p *Program) lookupFuncByName(full string) *types.Func {
	// full: path.Func or path.(*T).M or path.(T).M
	i := strings.Index(full, ".(")
	if i >= 0 {
		path := full[:i]
		rest := full[i+2:]
		j := strings.Index(rest, ").")
		tn := strings.TrimPrefix(rest[:j], "*")
		mn := rest[j+2:]
		pk := p.Pkgs[path]
		if pk == nil || pk.Types == nil {
			return nil
		}
		obj := pk.Types.Scope().Lookup(tn)
		if obj == nil {
			return nil
		}
		if named, ok := obj.Type().(*types.Named); ok {
			for k := 0; k < named.NumMethods(); k++ {
				if named.Method(k).Name() == mn {
					return named.Method(k)
				}
			}
			if it, ok := named.Underlying().(*types.Interface); ok {
				for k := 0; k < it.NumMethods(); k++ {
					if it.Method(k).Name() == mn {
						return it.Method(k)
					}
				}
			}
		}
		return nil
	}
	k := strings.LastIndex(full, ".")
	if k < 0 {
		return nil
	}
	pk := p.Pkgs[full[:k]]
	if pk == nil || pk.Types == nil {
		return nil
	}
	fn, _ := pk.Types.Scope().Lookup(full[k+1:]).(*types.Func)
	return fn
}

func (vc *VC) callNamed(x ast.Node, full string, fn *types.Func, sig *types.Signature, args []Val, st *State, rt types.Type) Val {
	con := vc.prog.Contracts[full]
	if con != nil && con.Inline {
		if fi, ok := vc.prog.Funcs[full]; ok && vc.callDepth < 6 {
			return vc.inlineCall(x, fi, args, st, rt)
		}
	}
	if con == nil {
		if r, ok := vc.builtinModel(x, full, sig, args, st, rt); ok {
			return r
		}
		// no contract: sound havoc
		vc.abstraction("call without contract: " + full + " (result fresh, all heaps havoc'd)")
		var targs []*Term
		for _, a := range args {
			targs = append(targs, vc.identityOf(a))
		}
		vc.emitEvent(st, "Call:"+full, targs)
		vc.havocAll(st, full)
		return vc.opaque(rt, "call")
	}
	return vc.applyContract(x, con, full, sig, args, st, rt)
}

func (vc *VC) applyContract(x ast.Node, con *Contract, full string, sig *types.Signature, args []Val, st *State, rt types.Type) Val {
	vc.assumedContracts[full] = true
	names := paramNames(con, sig)
	bind := map[string]Val{}
	for i, a := range args {
		if i < len(names) {
			bind[names[i]] = a
		}
	}
	calleePkg := vc.pkg
	if fi, ok := vc.prog.Funcs[full]; ok {
		calleePkg = fi.Pkg
	} else if i := strings.Index(full, ".("); i >= 0 {
		if pk := vc.prog.Pkgs[full[:i]]; pk != nil {
			calleePkg = pk
		}
	} else if i := strings.LastIndex(full, "."); i >= 0 {
		if pk := vc.prog.Pkgs[full[:i]]; pk != nil {
			calleePkg = pk
		}
	}
	pre := st.clone()
	envPre := &SpecEnv{vc: vc, st: pre, old: pre, names: bind, pkg: calleePkg, where: "requires of " + full}
	short := full[strings.LastIndex(full, "/")+1:]
	for _, r := range con.Requires {
		t := vc.specBool(envPre, r.Expr)
		vc.oblige(st, "call.pre", x, fmt.Sprintf("%s requires %s", short, clip(r.Text)), t)
	}
	// events: every non-pure call is one event of the caller's trace (arguments by identity / content key)
	var evArgs []*Term
	if !con.Pure {
		for _, a := range args {
			evArgs = append(evArgs, vc.identityOfIn(st, a))
		}
	}
	// havoc modifies
	if con.NoFrame {
		vc.havocAll(st, full)
	} else {
		for _, m := range con.Modifies {
			vc.havocModifies(envPre, m, st)
		}
	}
	if !con.Pure && !con.NoFrame {
		vc.fuelStep(st)
	}
	// allocation may advance
	if !con.Pure {
		n := vc.nextArr(st)
		nn := vc.fresh("$nextArr", SInt)
		vc.assume(Le(n, nn))
		st.heaps["$nextArr"] = nn
	}
	// results
	var res Val
	rnames := resultNames(con, sig)
	post := map[string]Val{}
	for k, v := range bind {
		post[k] = v
	}
	if sig.Results().Len() == 1 {
		res = vc.freshVal(sig.Results().At(0).Type(), "ret")
		post[rnames[0]] = res
	} else if sig.Results().Len() > 1 {
		var c []*Term
		for i := 0; i < sig.Results().Len(); i++ {
			v := vc.freshVal(sig.Results().At(i).Type(), "ret")
			post[rnames[i]] = v
			c = append(c, v.C...)
		}
		res = Val{T: sig.Results(), C: c}
	} else {
		res = Val{T: sig.Results()}
	}
	if con.Pure && sig.Results().Len() == 1 {
		// pure function: an uninterpreted function of its arguments (its postconditions, if any, are assumed about
		// that application below) - two calls on the same arguments agree, and specs can name the same application
		var as []*Term
		allInt := true
		for _, a := range args {
			as = append(as, vc.pureArgTerms(st, a)...)
		}
		for _, a := range as {
			if a.Sort != SInt {
				allInt = false
			}
		}
		l := layout(sig.Results().At(0).Type())
		if allInt && len(l) == 1 {
			r := App("pure:"+full, l[0].Sort, as...)
			res = mkVal(sig.Results().At(0).Type(), r)
			vc.typingVal(res)
			post[rnames[0]] = res
		}
	}
	if !con.Pure {
		for len(evArgs) < 100 {
			evArgs = append(evArgs, Zero)
		}
		for i := 0; i < sig.Results().Len(); i++ {
			evArgs = append(evArgs, vc.identityOfIn(st, post[rnames[i]]))
		}
		for len(evArgs) < 200 {
			evArgs = append(evArgs, Zero)
		}
		// slots 300+i / 400+i: backing array id and length of the i-th argument when it is a slice or string
		defer func(args []Val) {
			n := vc.heap(st, "$TraceLen", SInt)
			pos := Sub(n, One)
			ta := vc.heap(st, "$TraceArgs", SMem)
			row := Select(ta, pos)
			ch := false
			for i, a := range args {
				if a.T != nil && (kindOf(a.T) == KSlice || kindOf(a.T) == KString) {
					row = Store(Store(Store(row, IntK(int64(300+i)), a.C[0]), IntK(int64(400+i)), a.Len()), IntK(int64(800+i)), a.C[1])
					ch = true
				}
			}
			if ch {
				st.heaps["$TraceArgs"] = Store(ta, pos, row)
			}
		}(args)
		for i := 0; i < sig.Results().Len(); i++ {
			rv := post[rnames[i]]
			nilFlag := Zero
			switch kindOf(rv.T) {
			case KIface, KPtr, KSlice, KMap, KFunc:
				nilFlag = Ite(Eq(rv.C[0], Zero), One, Zero)
			}
			evArgs = append(evArgs, nilFlag)
		}
		// slots 500+k / 600+k / 700+k: backing array, length and offset of the k-th result when it is a slice or string
		defer func() {
			n := vc.heap(st, "$TraceLen", SInt)
			pos := Sub(n, One)
			ta := vc.heap(st, "$TraceArgs", SMem)
			row := Select(ta, pos)
			ch := false
			for i := 0; i < sig.Results().Len(); i++ {
				rv := post[rnames[i]]
				if rv.T != nil && (kindOf(rv.T) == KSlice || kindOf(rv.T) == KString) {
					row = Store(Store(Store(row, IntK(int64(500+i)), rv.C[0]), IntK(int64(600+i)), rv.Len()), IntK(int64(700+i)), rv.C[1])
					ch = true
				}
			}
			if ch {
				st.heaps["$TraceArgs"] = Store(ta, pos, row)
			}
		}()
		vc.emitEventSparse(st, "Call:"+full, evArgs)
	}
	envPost := &SpecEnv{vc: vc, st: st, old: pre, names: post, pkg: calleePkg, where: "ensures of " + full}
	for _, e := range con.Ensures {
		if mentionsTrace(e.Expr) {
			continue // clauses about the callee's own call trace are internal to the callee
		}
		t := vc.specAssumable(envPost, e.Expr)
		vc.assumeAt(st, t)
	}
	for _, e := range con.Assumes {
		vc.assumeAt(st, vc.specAssumable(envPost, e.Expr))
	}
	return res
}

// fuelStep: a call may consume tokens (the ghost measure never grows and never becomes negative).
func (vc *VC) fuelStep(st *State) {
	for name := range st.heaps {
		if strings.HasPrefix(name, "$Ghost:") {
			st.heaps[name] = vc.fresh(name, SInt)
		}
	}
	for name := range vc.heapSorts {
		if strings.HasPrefix(name, "$Ghost:") {
			if _, ok := st.heaps[name]; !ok {
				st.heaps[name] = vc.fresh(name, SInt)
			}
		}
	}
	h := vc.heap(st, "$Fuel", SInt)
	nh := vc.fresh("$Fuel", SInt)
	vc.assume(And(Le(Zero, nh), Le(nh, h)))
	st.heaps["$Fuel"] = nh
}

func traceEventName(con *Contract, full string) string {
	if con.Extern && !con.Pure {
		return "Call:" + full
	}
	return ""
}

// havocModifies havocs the region denoted by a modifies clause, keeping everything else.
func (vc *VC) havocModifies(env *SpecEnv, m *Clause, st *State) {
	regs := vc.regionsOf(env, m.Expr)
	if m.Guard != nil {
		// conditional frame: havoc in a copy and keep the old heaps when the guard is false
		g := vc.specAssumable(env, m.Guard.Expr)
		tmp := st.clone()
		for _, r := range regs {
			vc.havocRegion(tmp, r)
		}
		for k, h := range tmp.heaps {
			old, ok := st.heaps[k]
			if !ok {
				old = vc.implicitHeap(st, k)
			}
			if h != old {
				st.heaps[k] = Ite(g, h, old)
			}
		}
		return
	}
	for _, r := range regs {
		vc.havocRegion(st, r)
	}
}

type region struct {
	elem   types.Type
	lo, hi int // component range within elem layout
	arr    *Term
	ilo    *Term // index range [ilo, ihi)
	ihi    *Term
	global *types.Var
	wholeMap types.Type
	mapRef *Term
	guard  *Term
	wholeHeap types.Type // "modifies bytes": every cell of the byte memory (in-place rewriting of lexer buffers)
}

func (vc *VC) regionsOf(env *SpecEnv, e ast.Expr) []region {
	e = unparen(e)
	switch x := e.(type) {
	case *ast.SliceExpr:
		b := env.eval(x.X)
		if kindOf(b.T) != KSlice {
			env.errorf("modifies: not a slice: %s", exprString(x.X))
			return nil
		}
		lo := Zero
		if x.Low != nil {
			lo = env.eval(x.Low).C[0]
		}
		hi := b.Len()
		if x.High != nil {
			hi = env.eval(x.High).C[0]
		}
		et := elemTypeOf(b.T)
		return []region{{elem: et, lo: 0, hi: len(layout(et)), arr: b.Arr(), ilo: Add(b.Off(), lo), ihi: Add(b.Off(), hi)}}
	case *ast.IndexExpr:
		b := env.eval(x.X)
		i := env.eval(x.Index).C[0]
		if kindOf(b.T) == KSlice {
			et := elemTypeOf(b.T)
			return []region{{elem: et, lo: 0, hi: len(layout(et)), arr: b.Arr(), ilo: Add(b.Off(), i), ihi: Add(b.Off(), Add(i, One))}}
		}
	case *ast.StarExpr:
		p := env.eval(x.X)
		if kindOf(p.T) == KPtr {
			et := elemTypeOf(p.T)
			return []region{{elem: et, lo: 0, hi: len(layout(et)), arr: p.C[0], ilo: p.C[1], ihi: Add(p.C[1], One)}}
		}
	case *ast.SelectorExpr:
		b := env.eval(x.X)
		if kindOf(b.T) == KPtr {
			et := elemTypeOf(b.T)
			lo, hi, _, ok := fieldRange(et, x.Sel.Name)
			if ok {
				return []region{{elem: et, lo: lo, hi: hi, arr: b.C[0], ilo: b.C[1], ihi: Add(b.C[1], One)}}
			}
		}
	case *ast.Ident:
		if x.Name == "bytes" {
			if _, shadow := env.lookup(x.Name); !shadow {
				return []region{{wholeHeap: types.Typ[types.Uint8]}}
			}
		}
		v, ok := env.lookup(x.Name)
		if ok && kindOf(v.T) == KSlice {
			et := elemTypeOf(v.T)
			return []region{{elem: et, lo: 0, hi: len(layout(et)), arr: v.Arr(), ilo: v.Off(), ihi: Add(v.Off(), v.Len())}}
		}
		if ok && kindOf(v.T) == KMap {
			return []region{{wholeMap: v.T, mapRef: v.C[0]}}
		}
		// global?
		if env.pkg != nil {
			if g, ok := env.pkg.Types.Scope().Lookup(x.Name).(*types.Var); ok {
				return []region{{global: g}}
			}
		}
	case *ast.CallExpr:
		if id, ok := x.Fun.(*ast.Ident); ok && id.Name == "mapof" {
			v := env.eval(x.Args[0])
			return []region{{wholeMap: v.T, mapRef: v.C[0]}}
		}
	}
	env.errorf("unsupported modifies expression %s", exprString(e))
	return nil
}

func (vc *VC) havocRegion(st *State, r region) {
	if r.wholeHeap != nil {
		vc.havocType(st, r.wholeHeap)
		return
	}
	if r.global != nil {
		for _, cp := range layout(r.global.Type()) {
			name := globalKey(r.global) + cp.Path
			vc.heap(st, name, cp.Sort)
			st.heaps[name] = vc.fresh(name, cp.Sort)
		}
		return
	}
	if r.wholeMap != nil {
		names := []string{mapHasHeap(r.wholeMap)}
		sorts := []string{ArrSortOf(ArrSortOf(SBool))}
		for _, cp := range layout(elemTypeOf(r.wholeMap)) {
			names = append(names, mapValHeap(r.wholeMap, cp))
			sorts = append(sorts, heapSort(cp))
		}
		for i, name := range names {
			h := vc.heap(st, name, sorts[i])
			st.heaps[name] = Store(h, r.mapRef, vc.fresh("maprow", elemSort(sorts[i])))
		}
		return
	}
	l := layout(r.elem)
	single := Sub(r.ihi, r.ilo) == One
	for i := r.lo; i < r.hi; i++ {
		cp := l[i]
		name := heapNameFor(r.elem, cp)
		h := vc.heap(st, name, heapSort(cp))
		row := Select(h, r.arr)
		if single {
			nv := vc.fresh("cell", cp.Sort)
			if cp.Sort == SInt && kindOf(r.elem) == KInt {
				vc.assume(inRange(nv, r.elem))
			}
			st.heaps[name] = Store(h, r.arr, Store(row, r.ilo, nv))
			continue
		}
		nrow := vc.fresh("row", ArrSortOf(cp.Sort))
		k := vc.fresh("k", SInt)
		vc.assume(Forall([]*Term{k}, Implies(Not(And(Le(r.ilo, k), Lt(k, r.ihi))), Eq(Select(nrow, k), Select(row, k)))))
		st.heaps[name] = Store(h, r.arr, nrow)
	}
}

// ---- inline calls

func (vc *VC) inlineCall(x ast.Node, fi *FuncInfo, args []Val, st *State, rt types.Type) Val {
	// Only straight-line bodies consisting of a single return expression or simple if/return chains are inlined:
	// evaluate body with a sub-VC sharing log/obligations.
	sub := &VC{prog: vc.prog, fi: fi, pkg: fi.Pkg, info: fi.Pkg.TypesInfo, con: nil, unit: vc.unit, log: vc.log, obls: vc.obls,
		freshN: vc.freshN, occ: vc.occ, nodeOcc: vc.nodeOcc, entry: vc.entry, abstr: vc.abstr, heapSorts: vc.heapSorts,
		rangeFacts: vc.rangeFacts, globalsInit: vc.globalsInit, addrTaken: map[types.Object]bool{}, callDepth: vc.callDepth + 1,
		assumedContracts: vc.assumedContracts, sweep: true, origins: vc.origins, ghost: vc.ghost, strKeys: vc.strKeys}
	sub.loopOrd, _ = numberLoops(fi.Decl.Body)
	inner := &State{pc: st.pc, vars: map[types.Object]Val{}, heaps: st.heaps}
	sig := fi.Obj.Type().(*types.Signature)
	k := 0
	if fi.Decl.Recv != nil && len(fi.Decl.Recv.List) > 0 && len(fi.Decl.Recv.List[0].Names) > 0 {
		if o, ok := sub.info.Defs[fi.Decl.Recv.List[0].Names[0]].(*types.Var); ok {
			inner.vars[o] = args[0]
		}
		k = 1
	} else if sig.Recv() != nil {
		k = 1
	}
	pi := 0
	for _, f := range fi.Decl.Type.Params.List {
		for _, n := range f.Names {
			if o, ok := sub.info.Defs[n].(*types.Var); ok && k+pi < len(args) {
				inner.vars[o] = args[k+pi]
			}
			pi++
		}
		if len(f.Names) == 0 {
			pi++
		}
	}
	sub.setupResults(inner)
	sub.inlineMode = true
	f := sub.execBlock(fi.Decl.Body.List, inner)
	if f.normal != nil {
		sub.rets = append(sub.rets, f.normal)
	}
	vc.log, vc.obls, vc.freshN = sub.log, sub.obls, sub.freshN
	if sub.outOfSubset != "" {
		vc.abstraction("inline of " + funcFullName(fi.Obj) + " failed: " + sub.outOfSubset)
		vc.havocAll(st, "inline failed")
		return vc.opaque(rt, "inline")
	}
	ret := sub.joinAll(sub.rets)
	if ret == nil {
		st.pc = False
		return vc.opaque(rt, "inline")
	}
	// propagate heaps (pc unchanged: callee returns on all paths)
	for kk, h := range ret.heaps {
		st.heaps[kk] = h
	}
	var c []*Term
	for _, ro := range sub.resObjs {
		c = append(c, ret.vars[ro].C...)
	}
	if len(sub.resObjs) == 1 {
		return Val{T: sub.resObjs[0].Type(), C: c}
	}
	return Val{T: sig.Results(), C: c}
}

// ---- builtins

func (vc *VC) evalBuiltin(name string, x *ast.CallExpr, st *State) Val {
	rt := vc.typeOf(x)
	switch name {
	case "len":
		v := vc.eval(x.Args[0], st)
		switch kindOf(v.T) {
		case KSlice, KString:
			return mkVal(rt, v.Len())
		case KArray:
			return mkVal(rt, IntK(v.T.Underlying().(*types.Array).Len()))
		case KMap:
			r := App("maplen", SInt, v.C[0], vc.heap(st, mapHasHeap(v.T), ArrSortOf(ArrSortOf(SBool))))
			vc.assume(Le(Zero, r))
			return mkVal(rt, r)
		case KPtr:
			if at, ok := elemTypeOf(v.T).Underlying().(*types.Array); ok {
				return mkVal(rt, IntK(at.Len()))
			}
		}
	case "cap":
		v := vc.eval(x.Args[0], st)
		switch kindOf(v.T) {
		case KSlice:
			return mkVal(rt, v.Cap())
		case KArray:
			return mkVal(rt, IntK(v.T.Underlying().(*types.Array).Len()))
		}
	case "copy":
		dst := vc.eval(x.Args[0], st)
		src := vc.eval(x.Args[1], st)
		n := Ite(Le(dst.Len(), src.Len()), dst.Len(), src.Len())
		nn := vc.fresh("ncopy", SInt)
		vc.assume(Eq(nn, n))
		vc.copyMem(st, dst, src, nn)
		return mkVal(rt, nn)
	case "append":
		return vc.evalAppend(x, st)
	case "make":
		t := vc.typeOf(x.Args[0])
		switch kindOf(t) {
		case KSlice:
			ln := vc.eval(x.Args[1], st).C[0]
			cp := ln
			if len(x.Args) > 2 {
				cp = vc.eval(x.Args[2], st).C[0]
			}
			vc.oblige(st, "bounds.make", x, "", And(Le(Zero, ln), Le(ln, cp)))
			arr := vc.alloc(st)
			et := elemTypeOf(t)
			for _, c := range layout(et) {
				nm := heapNameFor(et, c)
				h := vc.heap(st, nm, heapSort(c))
				st.heaps[nm] = Store(h, arr, ConstArr(ArrSortOf(c.Sort), zeroTerm(c.Sort)))
			}
			return mkVal(t, arr, Zero, ln, cp)
		case KMap:
			m := vc.alloc(st)
			mv := mkVal(t, m)
			vc.mapInitEmpty(st, t, mv)
			return mv
		}
	case "new":
		t := vc.typeOf(x.Args[0])
		arr := vc.alloc(st)
		vc.storeComps(st, t, arr, Zero, 0, zeroVal(t))
		return mkVal(rt, arr, Zero)
	case "delete":
		m := vc.eval(x.Args[0], st)
		k := vc.eval(x.Args[1], st)
		vc.mapDelete(st, m.T, m, k)
		return Val{}
	case "panic":
		vc.eval(x.Args[0], st)
		vc.oblige(st, "panic", x, "", False)
		return Val{}
	case "min", "max":
		a := vc.eval(x.Args[0], st)
		r := a.C[0]
		for _, e := range x.Args[1:] {
			b := vc.eval(e, st).C[0]
			if name == "min" {
				r = Ite(Le(r, b), r, b)
			} else {
				r = Ite(Le(r, b), b, r)
			}
		}
		return mkVal(rt, r)
	case "print", "println":
		return Val{}
	case "recover":
		return zeroVal(rt)
	}
	vc.abstraction("builtin " + name)
	return vc.opaque(rt, name)
}

// copyMem copies n elements from src to dst (memmove semantics).
func (vc *VC) copyMem(st *State, dst, src Val, n *Term) {
	et := elemTypeOf(dst.T)
	srcIsString := kindOf(src.T) == KString
	for _, cp := range layout(et) {
		name := heapNameFor(et, cp)
		h := vc.heap(st, name, heapSort(cp))
		var srcRow *Term
		if srcIsString {
			srcRow = Select(vc.strMem(), src.C[0])
		} else {
			srcRow = Select(h, src.Arr())
		}
		drow := Select(h, dst.Arr())
		nrow := vc.fresh("row", ArrSortOf(cp.Sort))
		k := vc.fresh("k", SInt)
		inR := And(Le(dst.Off(), k), Lt(k, Add(dst.Off(), n)))
		vc.assume(Forall([]*Term{k}, Eq(Select(nrow, k), Ite(inR, Select(srcRow, Add(src.Off(), Sub(k, dst.Off()))), Select(drow, k)))))
		st.heaps[name] = Store(h, dst.Arr(), nrow)
	}
}

func (vc *VC) evalAppend(x *ast.CallExpr, st *State) Val {
	t := vc.typeOf(x)
	base := vc.eval(x.Args[0], st)
	et := elemTypeOf(t)
	var addLen *Term
	var srcSlice *Val
	var elems []Val
	if x.Ellipsis.IsValid() {
		s := vc.eval(x.Args[1], st)
		addLen = s.Len()
		srcSlice = &s
	} else {
		for _, a := range x.Args[1:] {
			elems = append(elems, vc.convertTo(vc.eval(a, st), et, st, a))
		}
		addLen = IntK(int64(len(elems)))
	}
	newLen := Add(base.Len(), addLen)
	fits := Le(newLen, base.Cap())
	// case fits: write in place after len (aliasing the old array)
	inPlace := st.clone()
	inPlace.pc = And(st.pc, fits)
	grown := st.clone()
	grown.pc = And(st.pc, Not(fits))
	newArr := vc.alloc(grown)
	inPlace.heaps["$nextArr"] = grown.heaps["$nextArr"] // keep allocation counter uniform
	newCap := vc.fresh("newcap", SInt)
	vc.assume(Le(newLen, newCap))
	// grown: copy old contents
	write := func(s *State, arr, off *Term, copyOld bool) {
		if copyOld {
			d := mkVal(t, arr, Zero, base.Len(), newCap)
			vc.copyMem(s, d, base, base.Len())
		}
		if srcSlice != nil {
			d := mkVal(t, arr, Add(off, base.Len()), addLen, addLen)
			vc.copyMem(s, d, *srcSlice, addLen)
		} else {
			for i, e := range elems {
				vc.storeComps(s, et, arr, Add(off, Add(base.Len(), IntK(int64(i)))), 0, e)
			}
		}
	}
	write(inPlace, base.Arr(), base.Off(), false)
	write(grown, newArr, Zero, true)
	// merge heaps back into st
	for k, h1 := range inPlace.heaps {
		h2, ok := grown.heaps[k]
		if !ok {
			h2 = h1
		}
		st.heaps[k] = Ite(fits, h1, h2)
	}
	for k, h2 := range grown.heaps {
		if _, ok := inPlace.heaps[k]; !ok {
			st.heaps[k] = h2
		}
	}
	r1 := mkVal(t, base.Arr(), base.Off(), newLen, base.Cap())
	r2 := mkVal(t, newArr, Zero, newLen, newCap)
	return iteVal(fits, r1, r2)
}

// builtinModel: precise models for a few standard/dependency functions that need no contract file entry.
func (vc *VC) builtinModel(x ast.Node, full string, sig *types.Signature, args []Val, st *State, rt types.Type) (Val, bool) {
	return Val{}, false
}

func mentionsTrace(e ast.Expr) bool {
	found := false
	ast.Inspect(e, func(n ast.Node) bool {
		if c, ok := n.(*ast.CallExpr); ok {
			if id, ok := c.Fun.(*ast.Ident); ok {
				switch id.Name {
				case "tracelen", "ev", "evarg", "evres", "evarr", "evlen", "evoff", "evresnil", "evresarr", "evreslen", "evresoff":
					found = true
				}
			}
		}
		return !found
	})
	return found
}

// inlineClosure executes the body of a function literal once in the current state (captured variables are shared).
func (vc *VC) inlineClosure(lit *ast.FuncLit, st *State) Val {
	sub := &VC{prog: vc.prog, fi: vc.fi, pkg: vc.pkg, info: vc.info, con: nil, unit: vc.unit, log: vc.log, obls: vc.obls,
		freshN: vc.freshN, occ: vc.occ, nodeOcc: vc.nodeOcc, entry: vc.entry, abstr: vc.abstr, heapSorts: vc.heapSorts,
		rangeFacts: vc.rangeFacts, globalsInit: vc.globalsInit, addrTaken: vc.addrTaken, callDepth: vc.callDepth + 1,
		assumedContracts: vc.assumedContracts, sweep: true, origins: vc.origins, ghost: vc.ghost, strKeys: vc.strKeys}
	sub.loopOrd, _ = numberLoops(lit.Body)
	inner := st.clone()
	for _, f := range lit.Type.Params.List {
		for _, n := range f.Names {
			if o, ok := vc.info.Defs[n].(*types.Var); ok && o != nil {
				inner.vars[o] = vc.freshVal(o.Type(), n.Name)
			}
		}
	}
	var rts []*types.Var
	if lit.Type.Results != nil {
		for _, f := range lit.Type.Results.List {
			t := vc.info.TypeOf(f.Type)
			cnt := len(f.Names)
			if cnt == 0 {
				cnt = 1
			}
			for i := 0; i < cnt; i++ {
				o := types.NewVar(token.NoPos, vc.fi.Obj.Pkg(), fmt.Sprintf("closure_res%d", len(rts)), t)
				rts = append(rts, o)
				sub.resObjs = append(sub.resObjs, o)
				inner.vars[o] = zeroVal(t)
			}
		}
	}
	sub.inlineMode = true
	f := sub.execBlock(lit.Body.List, inner)
	if f.normal != nil {
		sub.rets = append(sub.rets, f.normal)
	}
	vc.log, vc.obls, vc.freshN = sub.log, sub.obls, sub.freshN
	tup := types.NewTuple(rts...)
	if sub.outOfSubset != "" {
		vc.abstraction("inline of closure failed: " + sub.outOfSubset)
		vc.havocAll(st, "closure")
		return vc.opaque(tup, "closure")
	}
	ret := sub.joinAll(sub.rets)
	if ret == nil {
		return vc.opaque(tup, "closure")
	}
	for o := range st.vars {
		if v, ok := ret.vars[o]; ok {
			st.vars[o] = v
		}
	}
	for k, h := range ret.heaps {
		st.heaps[k] = h
	}
	st.epoch = ret.epoch
	var c []*Term
	for _, o := range rts {
		c = append(c, ret.vars[o].C...)
	}
	return Val{T: tup, C: c}
}
