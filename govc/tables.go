package main

// Table lemmas (T): exhaustive ground obligations over the built-in rewrite tables, one per entry,
// against reference relations (see /verif/reference/PROVENANCE.md).

import (
	"encoding/json"
	"fmt"
	"go/ast"
	"go/constant"
	"go/token"
	"go/types"
	"html"
	"os"
	"path/filepath"
	"sort"
	"strings"
)

type tblEntry struct {
	keyName string         // source text of the key
	key     constant.Value // constant value of the key (string or int)
	valStr  string         // []byte("...") / string value
	valInt  int64
	valBool bool
	hasStr  bool
	valExpr ast.Expr
	elems   []constant.Value // for []Hash{...} values
}

func tableEntries(prog *Program, pkgPath, varName string) ([]tblEntry, error) {
	pk := prog.Pkgs[pkgPath]
	if pk == nil {
		return nil, fmt.Errorf("package %s not loaded", pkgPath)
	}
	for _, f := range pk.Syntax {
		for _, d := range f.Decls {
			gd, ok := d.(*ast.GenDecl)
			if !ok || gd.Tok != token.VAR {
				continue
			}
			for _, sp := range gd.Specs {
				vs := sp.(*ast.ValueSpec)
				for i, n := range vs.Names {
					if n.Name != varName || i >= len(vs.Values) {
						continue
					}
					cl, ok := vs.Values[i].(*ast.CompositeLit)
					if !ok {
						return nil, fmt.Errorf("%s.%s is not initialised by a composite literal", pkgPath, varName)
					}
					var out []tblEntry
					for _, el := range cl.Elts {
						kv, ok := el.(*ast.KeyValueExpr)
						if !ok {
							return nil, fmt.Errorf("%s.%s: non key-value element", pkgPath, varName)
						}
						ktv := pk.TypesInfo.Types[kv.Key]
						if ktv.Value == nil {
							return nil, fmt.Errorf("%s.%s: key %s is not a constant", pkgPath, varName, nodeText(prog.Fset, kv.Key))
						}
						e := tblEntry{keyName: nodeText(prog.Fset, kv.Key), key: ktv.Value, valExpr: kv.Value}
						vtv := pk.TypesInfo.Types[kv.Value]
						switch {
						case vtv.Value != nil && vtv.Value.Kind() == constant.Bool:
							e.valBool = constant.BoolVal(vtv.Value)
						case vtv.Value != nil && vtv.Value.Kind() == constant.Int:
							e.valInt, _ = constant.Int64Val(vtv.Value)
						case vtv.Value != nil && vtv.Value.Kind() == constant.String:
							e.valStr, e.hasStr = constant.StringVal(vtv.Value), true
						default:
							if ce, ok := kv.Value.(*ast.CallExpr); ok && len(ce.Args) == 1 {
								if atv := pk.TypesInfo.Types[ce.Args[0]]; atv.Value != nil && atv.Value.Kind() == constant.String {
									e.valStr, e.hasStr = constant.StringVal(atv.Value), true
								}
							} else if icl, ok := kv.Value.(*ast.CompositeLit); ok {
								for _, x := range icl.Elts {
									if xtv := pk.TypesInfo.Types[x]; xtv.Value != nil {
										e.elems = append(e.elems, xtv.Value)
									} else {
										return nil, fmt.Errorf("%s.%s[%s]: non-constant element", pkgPath, varName, e.keyName)
									}
								}
							} else {
								return nil, fmt.Errorf("%s.%s[%s]: value is not a constant expression", pkgPath, varName, e.keyName)
							}
						}
						out = append(out, e)
					}
					return out, nil
				}
			}
		}
	}
	return nil, fmt.Errorf("table %s.%s not found", pkgPath, varName)
}

// interpCall runs a function of /repo concretely in the bounded interpreter (no symbolic inputs).
func interpCall(prog *Program, full string, recv BVal, hasRecv bool, args []BVal) (res BVal, err error) {
	fi, ok := prog.Funcs[full]
	if !ok {
		return nil, fmt.Errorf("function %s not found", full)
	}
	bx := newBX(prog)
	bx.resetPath()
	defer func() {
		if r := recover(); r != nil {
			err = fmt.Errorf("%v", r)
		}
	}()
	nf := &bframe{vars: map[types.Object]*BVar{}, info: fi.Pkg.TypesInfo, fi: fi}
	res = bx.runBody(nf, fi.Decl.Type, fi.Decl.Body, fi.Decl.Recv, recv, hasRecv, args)
	return res, nil
}

func bvalString(v BVal) string {
	s, ok := v.(BSlice)
	if !ok {
		return ""
	}
	var sb strings.Builder
	for i := 0; i < s.len; i++ {
		c, _ := s.arr.cells[s.off+i].(*Term).Int64()
		sb.WriteByte(byte(c))
	}
	return sb.String()
}

func hashName(prog *Program, pkgPath string, h int64) (string, error) {
	r, err := interpCall(prog, pkgPath+".(Hash).String", IntK(h), true, nil)
	if err != nil {
		return "", err
	}
	return bvalString(r), nil
}

func bytesVal(bx *BX, s string) BVal {
	arr := &BArr{cells: make([]BVal, len(s)), id: 1}
	for i := 0; i < len(s); i++ {
		arr.cells[i] = IntK(int64(s[i]))
	}
	return BSlice{arr: arr, len: len(s), cap: len(s)}
}

type refData struct {
	Lists  map[string]struct{ Values []string }
	Colors map[string][3]int
}

func loadRefs() (*refData, error) {
	rd := &refData{Lists: map[string]struct{ Values []string }{}, Colors: map[string][3]int{}}
	b, err := os.ReadFile(filepath.Join(verifDir, "reference", "html-css-svg.json"))
	if err != nil {
		return nil, err
	}
	if err := json.Unmarshal(b, &rd.Lists); err != nil {
		return nil, err
	}
	b, err = os.ReadFile(filepath.Join(verifDir, "reference", "css-colors.json"))
	if err != nil {
		return nil, err
	}
	var cm map[string][]int
	if err := json.Unmarshal(b, &cm); err != nil {
		return nil, err
	}
	for k, v := range cm {
		rd.Colors[k] = [3]int{v[0], v[1], v[2]}
	}
	return rd, nil
}

func (rd *refData) set(name string) map[string]bool {
	m := map[string]bool{}
	for _, v := range rd.Lists[name].Values {
		m[v] = true
	}
	return m
}

func parseHexColor(s string) ([3]int, bool) {
	if !strings.HasPrefix(s, "#") {
		return [3]int{}, false
	}
	h := s[1:]
	if len(h) == 3 {
		h = string([]byte{h[0], h[0], h[1], h[1], h[2], h[2]})
	}
	if len(h) != 6 {
		return [3]int{}, false
	}
	var out [3]int
	for i := 0; i < 3; i++ {
		var v int
		if _, err := fmt.Sscanf(h[2*i:2*i+2], "%02x", &v); err != nil {
			return [3]int{}, false
		}
		out[i] = v
	}
	return out, true
}

type tblOblig struct {
	name string
	ok   bool
	why  string
}

func init() { customCheckers["tables"] = tablesChecker }

func tablesChecker(cr *checkRun) {
	prog := cr.prog
	rd, err := loadRefs()
	if err != nil {
		cr.viol = append(cr.viol, violation{Obligation: "tables#reference", Kind: "table", Detail: "cannot load reference data: " + err.Error()})
		return
	}
	kfs := loadKnownFindings()
	var obls []tblOblig
	add := func(name string, ok bool, why string) {
		obls = append(obls, tblOblig{name, ok, why})
	}
	fail := func(table string, err error) {
		cr.viol = append(cr.viol, violation{Obligation: "table#" + table, Kind: "table", Detail: "table can no longer be extracted as constants: " + err.Error()})
	}
	htmlP, cssP, svgP, xmlP := modPath+"/html", modPath+"/css", modPath+"/svg", modPath+"/xml"

	// --- HTML / XML entity tables
	if es, err := tableEntries(prog, htmlP, "EntitiesMap"); err != nil {
		fail("html.EntitiesMap", err)
	} else {
		for _, e := range es {
			k := constant.StringVal(e.key)
			want := html.UnescapeString("&" + k + ";")
			got := html.UnescapeString(e.valStr)
			ok := want == got && want != "&"+k+";" && len(e.valStr) <= len(k)+2
			add("html.EntitiesMap["+k+"]", ok, fmt.Sprintf("&%s; decodes to %q, replacement %q decodes to %q", k, want, e.valStr, got))
		}
	}
	for _, t := range []struct{ pkg, name string }{{htmlP, "TextRevEntitiesMap"}, {xmlP, "TextRevEntitiesMap"}, {xmlP, "AttrRevEntitiesMap"}} {
		if es, err := tableEntries(prog, t.pkg, t.name); err != nil {
			fail(shortName(t.pkg)+"."+t.name, err)
		} else {
			have := map[rune]bool{}
			for _, e := range es {
				c, _ := constant.Int64Val(e.key)
				have[rune(c)] = true
				got := html.UnescapeString(e.valStr)
				add(fmt.Sprintf("%s.%s[%q]", shortName(t.pkg), t.name, rune(c)), got == string(rune(c)), fmt.Sprintf("replacement %q decodes to %q", e.valStr, got))
			}
			if t.pkg == xmlP {
				// XML: a decoded & or < must be written back as a reference in text and in attribute values (well-formedness)
				for _, c := range []rune{'<', '&'} {
					add(fmt.Sprintf("%s.%s#has[%q]", shortName(t.pkg), t.name, c), have[c], fmt.Sprintf("the reverse table re-escapes %q", c))
				}
				// XML 1.0 2.11: a literal CR is turned into LF by end-of-line handling; 3.3.3: a literal tab, LF or CR in an
				// attribute value is normalised to a space - a decoded reference to one of them must go back as a reference
				ws := []rune{'\r'}
				if t.name == "AttrRevEntitiesMap" {
					ws = []rune{'\t', '\n', '\r'}
				}
				for _, c := range ws {
					add(fmt.Sprintf("%s.%s#has[%q]", shortName(t.pkg), t.name, c), have[c], fmt.Sprintf("the reverse table re-escapes %q (it would not survive re-parsing as a literal)", c))
				}
			}
		}
	}
	if es, err := tableEntries(prog, xmlP, "EntitiesMap"); err != nil {
		fail("xml.EntitiesMap", err)
	} else {
		xmlPredef := map[string]string{"amp": "&", "lt": "<", "gt": ">", "apos": "'", "quot": "\""}
		for _, e := range es {
			k := constant.StringVal(e.key)
			want, okp := xmlPredef[k]
			got := e.valStr
			if strings.HasPrefix(got, "&") {
				got = html.UnescapeString(got)
			}
			add("xml.EntitiesMap["+k+"]", okp && got == want, fmt.Sprintf("&%s; is %q in XML, replacement %q is %q", k, want, e.valStr, got))
		}
	}

	// --- colours
	if es, err := tableEntries(prog, cssP, "ShortenColorHex"); err != nil {
		fail("css.ShortenColorHex", err)
	} else {
		for _, e := range es {
			k := constant.StringVal(e.key)
			rgb, ok1 := parseHexColor(k)
			ref, ok2 := rd.Colors[strings.ToLower(e.valStr)]
			add("css.ShortenColorHex["+k+"]", ok1 && ok2 && rgb == ref && len(e.valStr) <= len(k), fmt.Sprintf("%s is rgb%v, keyword %q is rgb%v (known keyword: %v)", k, rgb, e.valStr, ref, ok2))
		}
	}
	if es, err := tableEntries(prog, cssP, "ShortenColorName"); err != nil {
		fail("css.ShortenColorName", err)
	} else {
		for _, e := range es {
			h, _ := constant.Int64Val(e.key)
			name, herr := hashName(prog, cssP, h)
			rgb, ok1 := parseHexColor(e.valStr)
			ref, ok2 := rd.Colors[name]
			add("css.ShortenColorName["+e.keyName+"]", herr == nil && ok1 && ok2 && rgb == ref, fmt.Sprintf("keyword %q is rgb%v (real CSS colour keyword: %v), replacement %s is rgb%v", name, ref, ok2, e.valStr, rgb))
		}
	}

	// --- HTML attribute / element traits
	traitBit := func(name string) int64 {
		if c, ok := prog.Pkgs[htmlP].Types.Scope().Lookup(name).(*types.Const); ok {
			v, _ := constant.Int64Val(c.Val())
			return v
		}
		return 0
	}
	if es, err := tableEntries(prog, htmlP, "attrMap"); err != nil {
		fail("html.attrMap", err)
	} else {
		boolRef, urlRef := rd.set("boolean_attributes"), rd.set("url_attributes")
		bb, ub := traitBit("booleanAttr"), traitBit("urlAttr")
		for _, e := range es {
			h, _ := constant.Int64Val(e.key)
			name, herr := hashName(prog, htmlP, h)
			if e.valInt&bb != 0 {
				add("html.attrMap["+e.keyName+"]&booleanAttr", herr == nil && boolRef[name], fmt.Sprintf("%q treated as a boolean attribute; in the standard's boolean list: %v", name, boolRef[name]))
			}
			if e.valInt&ub != 0 {
				add("html.attrMap["+e.keyName+"]&urlAttr", herr == nil && urlRef[name], fmt.Sprintf("%q treated as URL-valued; in the reference list: %v", name, urlRef[name]))
			}
		}
	}
	if es, err := tableEntries(prog, htmlP, "tagMap"); err != nil {
		fail("html.tagMap", err)
	} else {
		raw, blk, omit := rd.set("raw_text_elements"), rd.set("whitespace_insignificant_elements"), rd.set("p_closing_start_tags")
		rb, bb, ob, kb := traitBit("rawTag"), traitBit("blockTag"), traitBit("omitPTag"), traitBit("keepPTag")
		keep := map[string]bool{}
		for _, e := range es {
			h, _ := constant.Int64Val(e.key)
			name, herr := hashName(prog, htmlP, h)
			if e.valInt&rb != 0 {
				add("html.tagMap["+e.keyName+"]&rawTag", herr == nil && raw[name], fmt.Sprintf("%q treated as raw text; raw-text/escapable/foreign element: %v", name, raw[name]))
			}
			if e.valInt&bb != 0 {
				add("html.tagMap["+e.keyName+"]&blockTag", herr == nil && blk[name], fmt.Sprintf("whitespace dropped next to %q; boundary insignificant per the rendering section: %v", name, blk[name]))
			}
			if e.valInt&ob != 0 {
				add("html.tagMap["+e.keyName+"]&omitPTag", herr == nil && omit[name], fmt.Sprintf("</p> omitted before <%s>; allowed by the standard: %v", name, omit[name]))
			}
			if e.valInt&kb != 0 {
				keep[name] = true
			}
		}
		for _, n := range rd.Lists["p_end_tag_required_parents"].Values {
			add("html.tagMap: keepPTag covers "+n, keep[n], fmt.Sprintf("</p> must be kept when it is the last child of <%s>; keepPTag set: %v", n, keep[n]))
		}
	}
	if es, err := tableEntries(prog, htmlP, "jsMimetypes"); err != nil {
		fail("html.jsMimetypes", err)
	} else {
		ref := rd.set("js_mimetypes")
		for _, e := range es {
			k := constant.StringVal(e.key)
			add("html.jsMimetypes["+k+"]", !e.valBool || ref[k], "JavaScript MIME type essence: "+fmt.Sprint(ref[k]))
		}
	}
	if es, err := tableEntries(prog, cssP, "optionalZeroDimension"); err != nil {
		fail("css.optionalZeroDimension", err)
	} else {
		ref := rd.set("length_and_angle_units")
		for _, e := range es {
			k := constant.StringVal(e.key)
			add("css.optionalZeroDimension["+k+"]", !e.valBool || ref[k], "length or angle unit: "+fmt.Sprint(ref[k]))
		}
	}
	if es, err := tableEntries(prog, svgP, "colorAttrMap"); err != nil {
		fail("svg.colorAttrMap", err)
	} else {
		ref := rd.set("svg_color_attributes")
		for _, e := range es {
			h, _ := constant.Int64Val(e.key)
			name, herr := hashName(prog, svgP, h)
			add("svg.colorAttrMap["+e.keyName+"]", herr == nil && (!e.valBool || ref[name]), fmt.Sprintf("%q is a colour-valued attribute: %v", name, ref[name]))
		}
	}

	// --- perfect-hash tables: ToHash(String(h)) == h for every declared constant (real ToHash/String executed)
	for _, pp := range []string{htmlP, cssP, svgP} {
		pk := prog.Pkgs[pp]
		if pk == nil {
			continue
		}
		scope := pk.Types.Scope()
		n := 0
		for _, name := range scope.Names() {
			c, ok := scope.Lookup(name).(*types.Const)
			if !ok || !strings.HasSuffix(c.Type().String(), ".Hash") {
				continue
			}
			h, _ := constant.Int64Val(c.Val())
			s, err := hashName(prog, pp, h)
			okk := err == nil && s != ""
			if okk {
				r, err2 := interpCall(prog, pp+".ToHash", nil, false, []BVal{bytesVal(nil, s)})
				if err2 != nil {
					okk = false
				} else if t, isT := r.(*Term); !isT || !t.IsConst() || t.K.Int64() != h {
					okk = false
				}
			}
			n++
			add(shortName(pp)+".Hash."+name, okk, fmt.Sprintf("String() = %q, ToHash(String()) round trip", s))
		}
		if n == 0 {
			add(shortName(pp)+".Hash", false, "no Hash constants found")
		}
	}

	tableVerdict(cr, kfs, obls, "tables")
}

// tableVerdict turns ground table obligations into the check result.
func tableVerdict(cr *checkRun, kfs []KnownFinding, obls []tblOblig, label string) {
	// verdict
	nOK := 0
	var failed []string
	for _, o := range obls {
		cr.nObl++
		matchedKnown := false
		if !o.ok {
			for _, kf := range kfs {
				if kf.Status == "open" && kf.Match != "" && strings.Contains("table:"+o.name, kf.Match) {
					matchedKnown = true
					if kf.Property == cr.prop.ID {
						cr.knownHit[kf.ID] = "table:" + o.name // printed as KNOWN-FINDING; for the other properties that run the tables it is a foreign finding
					}
				}
			}
		}
		if o.ok {
			nOK++
			cr.nOK++
			cr.byBackend["ground-evaluation"]++
			continue
		}
		if matchedKnown {
			cr.nObl-- // recorded finding, excluded from the claim
			continue
		}
		failed = append(failed, o.name)
		v := violation{Obligation: "table:" + o.name, Kind: "table", Detail: o.why, Reproduced: true, Input: o.name}
		v.Replay = writeReplayFile(cr, v, &ReplayFile{Outcome: "reproduced", Detail: o.why, Note: "table entry disagrees with the reference relation (ground evaluation; the entry itself is the failing input)"})
		cr.viol = append(cr.viol, v)
	}
	sort.Strings(failed)
	for i, o := range obls {
		if i%97 == 0 && len(cr.samples) < 8 {
			cr.samples = append(cr.samples, map[string]string{"table_obligation": o.name, "fact": o.why, "status": fmt.Sprint(o.ok)})
		}
	}
	cr.custom = append(cr.custom, map[string]interface{}{"checker": label, "entries_checked": len(obls), "entries_ok": nOK, "failed": failed, "exhaustive": true})
}
