package main

// JS operator table lemmas (C01): the five precedence maps of js/util.go against the ECMAScript expression grammar
// (/verif/reference/js-operators.json), one ground obligation per operator and map, both directions (nothing missing,
// nothing extra), plus the order of the dependency's OpPrec constants the comparisons rely on.

import (
	"encoding/json"
	"fmt"
	"go/constant"
	"go/types"
	"os"
	"path/filepath"
	"sort"
	"strings"
)

func init() { customCheckers["jstables"] = jsTablesChecker }

type jsOpRef struct {
	Binary map[string]struct{ Op, Left, Right string } `json:"binary"`
	Unary  map[string]struct{ Op, Operand string }     `json:"unary"`
	Order  []string                                    `json:"precedence_order_low_to_high"`
}

func jsTablesChecker(cr *checkRun) {
	prog := cr.prog
	var ref jsOpRef
	b, err := os.ReadFile(filepath.Join(verifDir, "reference", "js-operators.json"))
	if err == nil {
		err = json.Unmarshal(b, &ref)
	}
	if err != nil {
		cr.viol = append(cr.viol, violation{Obligation: "jstables#reference", Kind: "table", Detail: "cannot load reference data: " + err.Error()})
		return
	}
	var obls []tblOblig
	add := func(name string, ok bool, why string) { obls = append(obls, tblOblig{name, ok, why}) }
	jsP := modPath + "/js"
	strip := func(s string) string { return strings.TrimPrefix(strings.TrimSpace(s), "js.") }
	check := func(table string, want map[string]string) {
		es, err := tableEntries(prog, jsP, table)
		if err != nil {
			cr.viol = append(cr.viol, violation{Obligation: "table#js." + table, Kind: "table", Detail: "table can no longer be extracted as constants: " + err.Error()})
			return
		}
		got := map[string]string{}
		for _, e := range es {
			got[strip(e.keyName)] = strip(nodeText(prog.Fset, e.valExpr))
		}
		var keys []string
		for k := range want {
			keys = append(keys, k)
		}
		for k := range got {
			if _, ok := want[k]; !ok {
				keys = append(keys, k)
			}
		}
		sort.Strings(keys)
		for _, k := range keys {
			w, inRef := want[k]
			g, inTab := got[k]
			switch {
			case !inTab:
				add(fmt.Sprintf("js.%s[%s]", table, k), false, fmt.Sprintf("operator %s has no entry (a missing entry reads as OpExpr, the lowest level); the grammar gives %s", k, w))
			case !inRef:
				add(fmt.Sprintf("js.%s[%s]", table, k), false, fmt.Sprintf("entry %s -> %s is not an operator of the reference grammar", k, g))
			default:
				add(fmt.Sprintf("js.%s[%s]", table, k), g == w, fmt.Sprintf("table says %s, the grammar gives %s", g, w))
			}
		}
	}
	bo, bl, br := map[string]string{}, map[string]string{}, map[string]string{}
	for k, v := range ref.Binary {
		bo[k], bl[k], br[k] = v.Op, v.Left, v.Right
	}
	uo, ua := map[string]string{}, map[string]string{}
	for k, v := range ref.Unary {
		uo[k], ua[k] = v.Op, v.Operand
	}
	check("binaryOpPrecMap", bo)
	check("binaryLeftPrecMap", bl)
	check("binaryRightPrecMap", br)
	check("unaryOpPrecMap", uo)
	check("unaryPrecMap", ua)
	// the operators and levels named by the reference exist in the dependency, and the levels are ordered as the grammar nests them
	if dep := prog.Pkgs["github.com/tdewolff/parse/v2/js"]; dep == nil {
		add("parse/js", false, "dependency package not loaded")
	} else {
		var names []string
		for k := range ref.Binary {
			names = append(names, k)
		}
		for k := range ref.Unary {
			names = append(names, k)
		}
		sort.Strings(names)
		for _, n := range names {
			_, ok := dep.Types.Scope().Lookup(n).(*types.Const)
			add("parse/js."+n, ok, "token constant exists in the dependency")
		}
		prev := int64(-1)
		for _, n := range ref.Order {
			c, ok := dep.Types.Scope().Lookup(n).(*types.Const)
			v := int64(-2)
			if ok {
				v, _ = constant.Int64Val(c.Val())
			}
			add("parse/js."+n+"#order", ok && v > prev, fmt.Sprintf("level %s has value %d, previous level %d (levels must increase with binding strength)", n, v, prev))
			prev = v
		}
	}
	tableVerdict(cr, loadKnownFindings(), obls, "jstables")
}
