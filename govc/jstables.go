package main

// JS operator table lemmas (C01): the five precedence maps of js/util.go against the ECMAScript expression grammar
// (/verif/reference/js-operators.json), one ground obligation per operator and map, both directions (nothing missing,
// nothing extra), plus the order of the dependency's OpPrec constants the comparisons rely on.

import (
	"encoding/json"
	"fmt"
	"go/ast"
	"go/constant"
	"go/types"
	"os"
	"path/filepath"
	"sort"
	"strings"
)

func init() { customCheckers["jstables"] = jsTablesChecker }

type jsOpRef struct {
	Binary map[string]struct{ Op, Left, Right string } `json:"binary"`
	Unary  map[string]struct{ Op, Operand string }     `json:"unary"`
	Order  []string                                    `json:"precedence_order_low_to_high"`
}

func jsTablesChecker(cr *checkRun) {
	prog := cr.prog
	var ref jsOpRef
	b, err := os.ReadFile(filepath.Join(verifDir, "reference", "js-operators.json"))
	if err == nil {
		err = json.Unmarshal(b, &ref)
	}
	if err != nil {
		cr.viol = append(cr.viol, violation{Obligation: "jstables#reference", Kind: "table", Detail: "cannot load reference data: " + err.Error()})
		return
	}
	var obls []tblOblig
	add := func(name string, ok bool, why string) { obls = append(obls, tblOblig{name, ok, why}) }
	jsP := modPath + "/js"
	strip := func(s string) string { return strings.TrimPrefix(strings.TrimSpace(s), "js.") }
	check := func(table string, want map[string]string) {
		es, err := tableEntries(prog, jsP, table)
		if err != nil {
			cr.viol = append(cr.viol, violation{Obligation: "table#js." + table, Kind: "table", Detail: "table can no longer be extracted as constants: " + err.Error()})
			return
		}
		got := map[string]string{}
		for _, e := range es {
			got[strip(e.keyName)] = strip(nodeText(prog.Fset, e.valExpr))
		}
		var keys []string
		for k := range want {
			keys = append(keys, k)
		}
		for k := range got {
			if _, ok := want[k]; !ok {
				keys = append(keys, k)
			}
		}
		sort.Strings(keys)
		for _, k := range keys {
			w, inRef := want[k]
			g, inTab := got[k]
			switch {
			case !inTab:
				add(fmt.Sprintf("js.%s[%s]", table, k), false, fmt.Sprintf("operator %s has no entry (a missing entry reads as OpExpr, the lowest level); the grammar gives %s", k, w))
			case !inRef:
				add(fmt.Sprintf("js.%s[%s]", table, k), false, fmt.Sprintf("entry %s -> %s is not an operator of the reference grammar", k, g))
			default:
				add(fmt.Sprintf("js.%s[%s]", table, k), g == w, fmt.Sprintf("table says %s, the grammar gives %s", g, w))
			}
		}
	}
	bo, bl, br := map[string]string{}, map[string]string{}, map[string]string{}
	for k, v := range ref.Binary {
		bo[k], bl[k], br[k] = v.Op, v.Left, v.Right
	}
	uo, ua := map[string]string{}, map[string]string{}
	for k, v := range ref.Unary {
		uo[k], ua[k] = v.Op, v.Operand
	}
	check("binaryOpPrecMap", bo)
	check("binaryLeftPrecMap", bl)
	check("binaryRightPrecMap", br)
	check("unaryOpPrecMap", uo)
	check("unaryPrecMap", ua)
	// the operators and levels named by the reference exist in the dependency, and the levels are ordered as the grammar nests them
	if dep := prog.Pkgs["github.com/tdewolff/parse/v2/js"]; dep == nil {
		add("parse/js", false, "dependency package not loaded")
	} else {
		var names []string
		for k := range ref.Binary {
			names = append(names, k)
		}
		for k := range ref.Unary {
			names = append(names, k)
		}
		sort.Strings(names)
		for _, n := range names {
			_, ok := dep.Types.Scope().Lookup(n).(*types.Const)
			add("parse/js."+n, ok, "token constant exists in the dependency")
		}
		prev := int64(-1)
		for _, n := range ref.Order {
			c, ok := dep.Types.Scope().Lookup(n).(*types.Const)
			v := int64(-2)
			if ok {
				v, _ = constant.Int64Val(c.Val())
			}
			add("parse/js."+n+"#order", ok && v > prev, fmt.Sprintf("level %s has value %d, previous level %d (levels must increase with binding strength)", n, v, prev))
			prev = v
		}
	}
	jsGroupingScan(prog, jsP, add)
	tableVerdict(cr, loadKnownFindings(), obls, "jstables")
}

// jsGroupingScan: generator-decided dataflow fact over the source of package js. Wherever a binary expression node is
// constructed as js.BinaryExpr{OP, L, R} and an operand is produced by groupExpr(e, P) - directly or through a local
// defined once from such a call - P must be binaryLeftPrecMap[OP] for the left and binaryRightPrecMap[OP] for the
// right operand, with the SAME operator: grouping with another operator's level drops parentheses the new operator needs.
// Operands that are not produced by groupExpr are not judged.
func jsGroupingScan(prog *Program, jsP string, add func(string, bool, string)) {
	pk := prog.Pkgs[jsP]
	if pk == nil {
		add("js.grouping", false, "package not loaded")
		return
	}
	n := 0
	for _, f := range pk.Syntax {
		fn := prog.Fset.Position(f.Pos()).Filename
		if strings.HasSuffix(fn, "_test.go") || strings.HasSuffix(fn, "_verif.go") {
			continue
		}
		for _, d := range f.Decls {
			fd, ok := d.(*ast.FuncDecl)
			if !ok || fd.Body == nil {
				continue
			}
			// single definitions of locals from calls
			defs := map[types.Object]*ast.CallExpr{}
			multi := map[types.Object]bool{}
			ast.Inspect(fd.Body, func(nd ast.Node) bool {
				as, ok := nd.(*ast.AssignStmt)
				if !ok || len(as.Lhs) != len(as.Rhs) {
					return true
				}
				for i, l := range as.Lhs {
					id, ok := l.(*ast.Ident)
					if !ok {
						continue
					}
					o := pk.TypesInfo.ObjectOf(id)
					if o == nil {
						continue
					}
					if _, seen := defs[o]; seen || multi[o] {
						multi[o] = true
						delete(defs, o)
						continue
					}
					if c, ok := as.Rhs[i].(*ast.CallExpr); ok {
						defs[o] = c
					} else {
						multi[o] = true
					}
				}
				return true
			})
			ast.Inspect(fd.Body, func(nd ast.Node) bool {
				cl, ok := nd.(*ast.CompositeLit)
				if !ok {
					return true
				}
				t := pk.TypesInfo.TypeOf(cl)
				nt, ok := t.(*types.Named)
				if !ok || nt.Obj().Name() != "BinaryExpr" || nt.Obj().Pkg() == nil || nt.Obj().Pkg().Path() != "github.com/tdewolff/parse/v2/js" {
					return true
				}
				var opE, lE, rE ast.Expr
				for i, el := range cl.Elts {
					if kv, ok := el.(*ast.KeyValueExpr); ok {
						switch nodeText(prog.Fset, kv.Key) {
						case "Op":
							opE = kv.Value
						case "X":
							lE = kv.Value
						case "Y":
							rE = kv.Value
						}
					} else {
						switch i {
						case 0:
							opE = el
						case 1:
							lE = el
						case 2:
							rE = el
						}
					}
				}
				if opE == nil {
					return true
				}
				op := nodeText(prog.Fset, opE)
				pos := prog.Fset.Position(cl.Pos())
				where := fmt.Sprintf("%s:%s", filepath.Base(pos.Filename), fd.Name.Name)
				check := func(side string, e ast.Expr, wantMap string) {
					if e == nil {
						return
					}
					call, _ := e.(*ast.CallExpr)
					if id, ok := e.(*ast.Ident); ok {
						call = defs[pk.TypesInfo.ObjectOf(id)]
					}
					if call == nil || nodeText(prog.Fset, call.Fun) != "groupExpr" || len(call.Args) != 2 {
						return
					}
					n++
					got := strings.ReplaceAll(nodeText(prog.Fset, call.Args[1]), " ", "")
					want := wantMap + "[" + op + "]"
					add(fmt.Sprintf("js.grouping[%s:%s %s of %s]", where, side, nodeText(prog.Fset, e), op), got == want,
						fmt.Sprintf("operand is grouped with %s, the operator being built needs %s", got, want))
				}
				check("left", lE, "binaryLeftPrecMap")
				check("right", rE, "binaryRightPrecMap")
				return true
			})
		}
	}
	add("js.grouping#count", n > 0, fmt.Sprintf("%d grouped operands of constructed binary expressions judged", n))
}
