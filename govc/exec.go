package main

// Unbounded symbolic executor (passive form) over the typed AST.

import (
	"bytes"
	"fmt"
	"go/ast"
	"go/printer"
	"go/token"
	"go/types"
	"sort"
	"strings"
	"sync"

	"golang.org/x/tools/go/packages"
)

type Oblig struct {
	Full bool // discharge with the full solver budget (contract clauses, also while a registry is being written)
	Name    string
	Kind    string
	Unit    string
	Pos     token.Pos
	NLog    int // number of log entries visible
	PC      *Term
	Goal    *Term
	Cover   bool
	Budget  int // seconds; 0 = default. Obligations matching an OPEN known finding get one short attempt: anything but unsat means "still failing"
	Extra   []*Term // extra assumptions (local)
	vc      *VC
	Res     *SolveResult
	Claimed bool
	Note    string
	Soft    bool // informational (e.g. reachability of a return): never fails the check
}

type State struct {
	pc    *Term
	vars  map[types.Object]Val
	heaps map[string]*Term
	// ghost bookkeeping
	iterSnap *State // state at head of current loop iteration (for iter())
	epoch    int    // 0: heaps not yet materialised equal their entry value; >0: unknown since the havoc-all with this number
}

func (s *State) clone() *State {
	n := &State{pc: s.pc, vars: make(map[types.Object]Val, len(s.vars)), heaps: make(map[string]*Term, len(s.heaps)), iterSnap: s.iterSnap, epoch: s.epoch}
	for k, v := range s.vars {
		n.vars[k] = v
	}
	for k, v := range s.heaps {
		n.heaps[k] = v
	}
	return n
}

type VC struct {
	gotoT map[string]bool // labels that are goto targets (lazily computed)
	quiet bool // suppress obligations while evaluating an expression for its value only
	prog    *Program
	fi      *FuncInfo
	pkg     *packages.Package
	info    *types.Info
	con     *Contract
	unit    string
	log     []*Term
	obls    []*Oblig
	freshN  int
	occ     map[string]int
	nodeOcc map[ast.Node]map[string]int
	entry   *State
	abstr   map[string]int
	rets    []*State
	resObjs []types.Object // result variables (named or synthetic)
	resVars []*types.Var
	loopOrd map[ast.Stmt]int
	addrTaken map[types.Object]bool
	outOfSubset string
	sweep   bool
	heapSorts map[string]string
	rangeFacts map[int]bool
	deferred []*ast.DeferStmt
	onceAxioms map[string]bool
	globalsInit map[string]bool
	labels map[ast.Stmt]string
	ghost  map[string]Val
	callDepth int
	allocBase *Term
	assumedContracts map[string]bool
	params []types.Object
	origins map[int]originRec
	preserved []preservedObj
	tailDup bool
	strKeys map[int]*Term // content key of strings built by concatenation (by array-id term)
	inlineMode bool
	retCount int
}

// assumeOnce adds a global axiom once per unit.
func (vc *VC) assumeOnce(key string, t *Term) {
	if vc.onceAxioms == nil {
		vc.onceAxioms = map[string]bool{}
	}
	if vc.onceAxioms[key] {
		return
	}
	vc.onceAxioms[key] = true
	vc.assume(t)
}

func (vc *VC) fresh(prefix, sortS string) *Term {
	vc.freshN++
	return Var(fmt.Sprintf("%s!%d", prefix, vc.freshN), sortS)
}

func (vc *VC) assume(t *Term) {
	if t.IsTrue() {
		return
	}
	vc.log = append(vc.log, t)
}

func (vc *VC) abstraction(what string) {
	vc.abstr[what]++
}

func nodeText(fset *token.FileSet, n ast.Node) string {
	var buf bytes.Buffer
	printer.Fprint(&buf, fset, n)
	s := buf.String()
	s = strings.Join(strings.Fields(s), " ")
	if len(s) > 70 {
		s = s[:70] + "…"
	}
	return s
}

func (vc *VC) oblName(kind string, n ast.Node, anchor string) string {
	if anchor == "" && n != nil {
		anchor = nodeText(vc.prog.Fset, n)
	}
	base := fmt.Sprintf("%s#%s@%s", vc.unit, kind, anchor)
	if n != nil {
		if m, ok := vc.nodeOcc[n]; ok {
			if k, ok := m[base]; ok {
				m[base+"~"]++
				return fmt.Sprintf("%s#%d~%d", base, k, m[base+"~"]+1)
			}
		} else {
			vc.nodeOcc[n] = map[string]int{}
		}
	}
	vc.occ[base]++
	k := vc.occ[base]
	if n != nil {
		vc.nodeOcc[n][base] = k
	}
	if k == 1 {
		return base
	}
	return fmt.Sprintf("%s#%d", base, k)
}

func (vc *VC) oblige(st *State, kind string, n ast.Node, anchor string, goal *Term) *Oblig {
	if vc.quiet {
		// evaluating an expression only for its value (candidate loop variants): its safety obligations are those of
		// the real occurrence of the expression and are not generated a second time
		return &Oblig{Kind: kind, Unit: vc.unit, Goal: goal, Res: &SolveResult{Status: "unsat", Solver: "simplifier"}, vc: vc}
	}
	if goal.IsTrue() {
		// trivially discharged by the simplifier; still count it
		o := &Oblig{Name: vc.oblName(kind, n, anchor), Kind: kind, Unit: vc.unit, NLog: len(vc.log), PC: st.pc, Goal: goal, vc: vc}
		o.Res = &SolveResult{Status: "unsat", Solver: "simplifier"}
		vc.obls = append(vc.obls, o)
		return o
	}
	pos := token.NoPos
	if n != nil {
		pos = n.Pos()
	}
	name := vc.oblName(kind, n, anchor)
	// a conjunction of several quantified facts (typically a struct equality under a forall, distributed per
	// component) is discharged conjunct by conjunct: one small query each instead of one large one
	if splitQuantGoals && goal.Op == "and" && len(goal.Args) > 3 {
		nq := 0
		for _, a := range goal.Args {
			if hasQuant(a) {
				nq++
			}
		}
		if nq > 3 {
			var first *Oblig
			var rest []*Term
			qi := 0
			for _, a := range goal.Args {
				if !hasQuant(a) {
					rest = append(rest, a)
					continue
				}
				qi++
				o := &Oblig{Name: fmt.Sprintf("%s/part%d", name, qi), Kind: kind, Unit: vc.unit, Pos: pos, NLog: len(vc.log), PC: st.pc, Goal: a, vc: vc}
				vc.obls = append(vc.obls, o)
				if first == nil {
					first = o
				}
			}
			if len(rest) > 0 {
				o := &Oblig{Name: name + "/rest", Kind: kind, Unit: vc.unit, Pos: pos, NLog: len(vc.log), PC: st.pc, Goal: And(rest...), vc: vc}
				vc.obls = append(vc.obls, o)
			}
			return first
		}
	}
	o := &Oblig{Name: name, Kind: kind, Unit: vc.unit, Pos: pos, NLog: len(vc.log), PC: st.pc, Goal: goal, vc: vc}
	vc.obls = append(vc.obls, o)
	return o
}

func (vc *VC) cover(st *State, n ast.Node, anchor string) *Oblig {
	if vc.quiet {
		return &Oblig{Kind: "cover", Cover: true, vc: vc}
	}
	o := &Oblig{Name: vc.oblName("cover", n, anchor), Kind: "cover", Unit: vc.unit, NLog: len(vc.log), PC: st.pc, Goal: nil, Cover: true, vc: vc}
	vc.obls = append(vc.obls, o)
	return o
}

var quantMemo = map[int]bool{}
var quantMu sync.Mutex

func hasQuant(t *Term) bool {
	quantMu.Lock()
	defer quantMu.Unlock()
	return hasQuantRec(t)
}

func hasQuantRec(t *Term) bool {
	if v, ok := quantMemo[t.id]; ok {
		return v
	}
	r := t.Op == "forall" || t.Op == "exists"
	if !r {
		for _, a := range t.Args {
			if hasQuantRec(a) {
				r = true
				break
			}
		}
	}
	quantMemo[t.id] = r
	return r
}

func (o *Oblig) query() *Query { return o.queryPC(o.PC) }

// weakPC: the top-level atomic conjuncts of the path condition (disjunctions, conditionals, implications and quantified
// conjuncts dropped). Proving the goal under this weaker hypothesis is sound, and for goals that depend on a few
// dominating facts only (loop variants) it shrinks the query from the whole loop body to a handful of literals.
func weakPC(pc *Term) *Term {
	// facts(t): atomic facts implied by t - union over a conjunction, intersection over a disjunction
	var facts func(t *Term) map[int]*Term
	facts = func(t *Term) map[int]*Term {
		switch t.Op {
		case "and":
			out := map[int]*Term{}
			for _, a := range t.Args {
				for k, v := range facts(a) {
					out[k] = v
				}
			}
			return out
		case "or":
			var out map[int]*Term
			for _, a := range t.Args {
				fa := facts(a)
				if out == nil {
					out = fa
					continue
				}
				for k := range out {
					if _, ok := fa[k]; !ok {
						delete(out, k)
					}
				}
			}
			if out == nil {
				out = map[int]*Term{}
			}
			return out
		case "ite", "=>", "forall", "exists":
			return map[int]*Term{}
		}
		if t.Op == "not" && len(t.Args) == 1 {
			switch t.Args[0].Op {
			case "and", "or", "ite", "=>", "forall", "exists":
				return map[int]*Term{}
			}
		}
		return map[int]*Term{t.id: t}
	}
	fs := facts(pc)
	ids := make([]int, 0, len(fs))
	for k := range fs {
		ids = append(ids, k)
	}
	sort.Ints(ids)
	var out []*Term
	for _, k := range ids {
		out = append(out, fs[k])
	}
	return And(out...)
}

func (o *Oblig) queryPC(pc *Term) *Query {
	q := &Query{Cover: o.Cover}
	var cands []*Term
	for _, a := range o.vc.log[:o.NLog] {
		if o.Cover && hasQuant(a) {
			continue // covers are satisfiability checks: quantified facts are dropped (solvers answer unknown on them)
		}
		cands = append(cands, a)
	}
	cands = append(cands, o.Extra...)
	if o.Cover {
		// a cover must be satisfiable together with ALL assumptions (that is its point)
		q.Assumes = append(cands, o.PC)
		return q
	}
	// relevance slicing (sound: dropping assumptions only weakens the hypothesis): keep the assumptions that share a
	// free symbol, transitively, with the goal and the path condition (worklist over a symbol index)
	symsOf := make([][]string, len(cands))
	index := map[string][]int{}
	used := make([]bool, len(cands))
	for i, a := range cands {
		ss := termSyms(a)
		symsOf[i] = ss
		if len(ss) == 0 {
			used[i] = true
		}
		for _, s := range ss {
			index[s] = append(index[s], i)
		}
	}
	seen := map[string]bool{}
	var work []string
	push := func(t *Term) {
		for _, s := range termSyms(t) {
			if !seen[s] {
				seen[s] = true
				work = append(work, s)
			}
		}
	}
	push(pc)
	if o.Goal != nil {
		push(o.Goal)
	}
	for len(work) > 0 {
		s := work[len(work)-1]
		work = work[:len(work)-1]
		for _, i := range index[s] {
			if used[i] {
				continue
			}
			used[i] = true
			for _, s2 := range symsOf[i] {
				if !seen[s2] {
					seen[s2] = true
					work = append(work, s2)
				}
			}
		}
	}
	for i, a := range cands {
		if used[i] {
			q.Assumes = append(q.Assumes, a)
		}
	}
	q.Assumes = append(q.Assumes, pc)
	q.Goal = o.Goal
	return q
}

var symsMemo = map[int][]string{}
var symsMu sync.Mutex

// termSyms: free variable names of a term (uninterpreted function symbols are not linking symbols), memoised.
func termSyms(t *Term) []string {
	symsMu.Lock()
	defer symsMu.Unlock()
	return termSymsRec(t)
}

func termSymsRec(t *Term) []string {
	if r, ok := symsMemo[t.id]; ok {
		return r
	}
	var out []string
	switch t.Op {
	case "var":
		out = []string{t.Name}
	case "const", "bool":
	default:
		seen := map[string]bool{}
		for _, a := range t.Args {
			for _, s := range termSymsRec(a) {
				if !seen[s] {
					seen[s] = true
					out = append(out, s)
				}
			}
		}
	}
	symsMemo[t.id] = out
	return out
}

// ---- heaps

func (vc *VC) heap(st *State, name, sortS string) *Term {
	if h, ok := st.heaps[name]; ok {
		return h
	}
	vc.heapSorts[name] = sortS
	if st.epoch > 0 && !strings.HasPrefix(name, "$Trace") && !strings.HasPrefix(name, "G[") {
		// everything was havoc'd since entry: a heap first touched now is unknown, not its entry value
		h := Var(fmt.Sprintf("%s@e%d", name, st.epoch), sortS)
		st.heaps[name] = h
		return h
	}
	// first use: the heap existed at entry with unknown content; register in entry + all
	h := Var(name+"@0", sortS)
	st.heaps[name] = h
	if vc.entry != nil {
		if _, ok := vc.entry.heaps[name]; !ok {
			vc.entry.heaps[name] = h
		}
	}
	return h
}

func (vc *VC) nextArr(st *State) *Term { return vc.heap(st, "$nextArr", SInt) }

func (vc *VC) alloc(st *State) *Term {
	// every allocation site execution gets its own symbol: two exclusive branches that allocate from the same counter value
	// must not share an id (facts and side tables - string keys, origins - are attached to the id's term)
	n := vc.nextArr(st)
	a := vc.fresh("alloc", SInt)
	vc.assume(Le(n, a))
	st.heaps["$nextArr"] = Add(a, One)
	return a
}

// loadElem reads element (arr, idx) of element type elem from memory.
func (vc *VC) loadElem(st *State, elem types.Type, arr, idx *Term) Val {
	l := layout(elem)
	c := make([]*Term, len(l))
	for i, cp := range l {
		h := vc.heap(st, heapNameFor(elem, cp), heapSort(cp))
		c[i] = Select(Select(h, arr), idx)
		vc.typingFact(c[i], elem, cp, i)
	}
	v := Val{T: elem, C: c}
	if k := kindOf(elem); k == KStruct || k == KSlice || k == KString {
		vc.typingVal(v) // memory is well typed: 0 <= len <= cap etc. hold for every stored slice header
	}
	return v
}

func (vc *VC) loadComps(st *State, elem types.Type, arr, idx *Term, lo, hi int, ft types.Type) Val {
	l := layout(elem)
	c := make([]*Term, hi-lo)
	for i := lo; i < hi; i++ {
		h := vc.heap(st, heapNameFor(elem, l[i]), heapSort(l[i]))
		c[i-lo] = Select(Select(h, arr), idx)
	}
	v := Val{T: ft, C: c}
	vc.typingVal(v)
	return v
}

func (vc *VC) storeComps(st *State, elem types.Type, arr, idx *Term, lo int, v Val) {
	l := layout(elem)
	for i, t := range v.C {
		cp := l[lo+i]
		name := heapNameFor(elem, cp)
		h := vc.heap(st, name, heapSort(cp))
		st.heaps[name] = Store(h, arr, Store(Select(h, arr), idx, t))
	}
}

// typingFact adds range facts for a loaded integer cell.
// mentionsSpecBound: the term contains a quantifier-bound variable of a contract expression (named x!qN); facts about
// such terms must not be added to the global assumption log.
func mentionsSpecBound(t *Term) bool {
	for _, s := range termSyms(t) {
		if strings.Contains(s, "!q") {
			return true
		}
	}
	return false
}

func (vc *VC) typingFact(t *Term, elem types.Type, cp Comp, i int) {
	if cp.Sort != SInt || t.IsConst() || mentionsSpecBound(t) {
		return
	}
	if kindOf(elem) == KInt {
		if vc.rangeFacts[t.id] {
			return
		}
		vc.rangeFacts[t.id] = true
		vc.assume(inRange(t, elem))
	}
}

// typingVal adds typing facts for a (freshly read / havoc'd) value.
func (vc *VC) typingVal(v Val) {
	if len(v.C) == 0 {
		return
	}
	for _, c := range v.C {
		if mentionsSpecBound(c) {
			return
		}
	}
	key := v.C[0].id
	switch kindOf(v.T) {
	case KInt:
		if v.C[0].IsConst() || vc.rangeFacts[key] {
			return
		}
		vc.rangeFacts[key] = true
		vc.assume(inRange(v.C[0], v.T))
	case KSlice:
		if vc.rangeFacts[key] && vc.rangeFacts[v.C[2].id] {
			return
		}
		vc.rangeFacts[key] = true
		vc.rangeFacts[v.C[2].id] = true
		vc.assume(And(Le(Zero, v.Arr()), Le(Zero, v.Off()), Le(Zero, v.Len()), Le(v.Len(), v.Cap()),
			Le(Add(v.Off(), v.Cap()), IntK(1<<40)), // allocation size bound (A-mem)
			Implies(Eq(v.Arr(), Zero), And(Eq(v.Len(), Zero), Eq(v.Cap(), Zero), Eq(v.Off(), Zero)))))
	case KString:
		if vc.rangeFacts[key] && vc.rangeFacts[v.C[2].id] {
			return
		}
		vc.rangeFacts[key] = true
		vc.rangeFacts[v.C[2].id] = true
		// (no sign fact on the array id: string constants live at negative ids of StrMem)
		vc.assume(And(Le(Zero, v.C[1]), Le(Zero, v.C[2]), Le(Add(v.C[1], v.C[2]), IntK(1<<40))))
	case KPtr:
		if vc.rangeFacts[key] {
			return
		}
		vc.rangeFacts[key] = true
		vc.assume(And(Le(Zero, v.C[0]), Le(Zero, v.C[1])))
	case KStruct:
		st := v.T.Underlying().(*types.Struct)
		off := 0
		for i := 0; i < st.NumFields(); i++ {
			n := len(layout(st.Field(i).Type()))
			vc.typingVal(Val{T: st.Field(i).Type(), C: v.C[off : off+n]})
			off += n
		}
	case KMap, KIface, KFunc, KArray:
		if vc.rangeFacts[key] {
			return
		}
		vc.rangeFacts[key] = true
		vc.assume(Le(Zero, v.C[0]))
	}
}

func (vc *VC) freshVal(t types.Type, hint string) Val {
	l := layout(t)
	c := make([]*Term, len(l))
	vc.freshN++
	for i, cp := range l {
		c[i] = Var(fmt.Sprintf("%s%s!%d", hint, cp.Path, vc.freshN), cp.Sort)
	}
	v := Val{T: t, C: c}
	vc.typingVal(v)
	return v
}

// ---- joining states

func relCond(a, b *Term) *Term {
	// returns a condition c such that under (a or b): c <=> a  (a, b mutually exclusive)
	as := []*Term{a}
	if a.Op == "and" {
		as = a.Args
	}
	bs := []*Term{b}
	if b.Op == "and" {
		bs = b.Args
	}
	inB := map[int]bool{}
	for _, y := range bs {
		inB[y.id] = true
	}
	var ra []*Term
	for _, x := range as {
		if !inB[x.id] {
			ra = append(ra, x)
		}
	}
	if len(ra) == 0 {
		return a
	}
	return And(ra...)
}

func (vc *VC) join(a, b *State) *State {
	if a == nil {
		return b
	}
	if b == nil {
		return a
	}
	if a.pc.IsFalse() {
		return b
	}
	if b.pc.IsFalse() {
		return a
	}
	c := relCond(a.pc, b.pc)
	n := &State{pc: Or(a.pc, b.pc), vars: map[types.Object]Val{}, heaps: map[string]*Term{}, iterSnap: a.iterSnap}
	for k, va := range a.vars {
		vb, ok := b.vars[k]
		if !ok {
			continue
		}
		if sameVal(va, vb) {
			n.vars[k] = va
		} else {
			n.vars[k] = iteVal(c, va, vb)
		}
	}
	for k, ha := range a.heaps {
		hb, ok := b.heaps[k]
		if !ok {
			hb = vc.implicitHeap(b, k)
		}
		n.heaps[k] = Ite(c, ha, hb)
	}
	for k, hb := range b.heaps {
		if _, ok := a.heaps[k]; !ok {
			n.heaps[k] = Ite(c, vc.implicitHeap(a, k), hb)
		}
	}
	n.epoch = a.epoch
	if a.epoch != b.epoch {
		epochCounter++
		n.epoch = epochCounter
	}
	return n
}

func (vc *VC) implicitHeap(st *State, name string) *Term {
	if st.epoch > 0 && !strings.HasPrefix(name, "$Trace") && !strings.HasPrefix(name, "G[") {
		return Var(fmt.Sprintf("%s@e%d", name, st.epoch), vc.heapSorts[name])
	}
	return vc.entryHeap(name)
}

func (vc *VC) entryHeap(name string) *Term {
	if h, ok := vc.entry.heaps[name]; ok {
		return h
	}
	h := Var(name+"@0", vc.heapSorts[name])
	vc.entry.heaps[name] = h
	return h
}

func (vc *VC) joinAll(sts []*State) *State {
	var r *State
	for _, s := range sts {
		r = vc.join(r, s)
	}
	return r
}

// ---- loops ordinal numbering

func numberLoops(body *ast.BlockStmt) (map[ast.Stmt]int, []ast.Stmt) {
	m := map[ast.Stmt]int{}
	var list []ast.Stmt
	n := 0
	ast.Inspect(body, func(x ast.Node) bool {
		switch s := x.(type) {
		case *ast.FuncLit:
			return false
		case *ast.ForStmt:
			n++
			m[s] = n
			list = append(list, s)
		case *ast.RangeStmt:
			n++
			m[s] = n
			list = append(list, s)
		}
		return true
	})
	return m, list
}

func loopHeader(fset *token.FileSet, s ast.Stmt) string {
	var buf bytes.Buffer
	switch l := s.(type) {
	case *ast.ForStmt:
		c := *l
		c.Body = &ast.BlockStmt{}
		printer.Fprint(&buf, fset, &c)
	case *ast.RangeStmt:
		c := *l
		c.Body = &ast.BlockStmt{}
		printer.Fprint(&buf, fset, &c)
	}
	s2 := strings.Join(strings.Fields(buf.String()), " ")
	s2 = strings.TrimSpace(strings.TrimSuffix(strings.TrimSpace(s2), "}"))
	s2 = strings.TrimSpace(strings.TrimSuffix(s2, "{"))
	return s2
}

// assignedIn collects objects assigned in a statement subtree and whether heaps may be written.
type modInfo struct {
	fields    map[types.Object]map[string]bool // struct locals of which only some fields are assigned
	objs      map[types.Object]bool
	heapWrite bool // any store through index/field/pointer or call
	calls     []*ast.CallExpr
}

func (vc *VC) modSet(n ast.Node) *modInfo {
	mi := &modInfo{objs: map[types.Object]bool{}, fields: map[types.Object]map[string]bool{}}
	var lhs func(e ast.Expr)
	lhs = func(e ast.Expr) {
		// x.f = ... on a local struct variable: only field f changes
		if se, ok := e.(*ast.SelectorExpr); ok {
			if id, ok := unparen(se.X).(*ast.Ident); ok {
				if o, ok := vc.info.ObjectOf(id).(*types.Var); ok && kindOf(o.Type()) == KStruct {
					if sel := vc.info.Selections[se]; sel != nil && sel.Kind() == types.FieldVal && len(sel.Index()) == 1 {
						if mi.fields[o] == nil {
							mi.fields[o] = map[string]bool{}
						}
						mi.fields[o][se.Sel.Name] = true
						return
					}
				}
			}
		}
		switch x := e.(type) {
		case *ast.Ident:
			if o := vc.info.ObjectOf(x); o != nil {
				mi.objs[o] = true
			}
		case *ast.ParenExpr:
			lhs(x.X)
		case *ast.SelectorExpr:
			// field of local struct or through pointer
			if tv, ok := vc.info.Types[x.X]; ok && kindOf(tv.Type) == KPtr {
				mi.heapWrite = true
			} else {
				lhs(x.X)
			}
		case *ast.IndexExpr:
			mi.heapWrite = true
			if tv, ok := vc.info.Types[x.X]; ok && kindOf(tv.Type) == KArray {
				lhs(x.X)
			}
		case *ast.StarExpr:
			mi.heapWrite = true
		}
	}
	inspectNonExiting(n, func(x ast.Node) bool {
		switch s := x.(type) {
		case *ast.FuncLit:
			mi.heapWrite = true
			return false
		case *ast.AssignStmt:
			for _, l := range s.Lhs {
				lhs(l)
			}
		case *ast.IncDecStmt:
			lhs(s.X)
		case *ast.RangeStmt:
			if s.Key != nil {
				lhs(s.Key)
			}
			if s.Value != nil {
				lhs(s.Value)
			}
		case *ast.CallExpr:
			mi.calls = append(mi.calls, s)
		case *ast.UnaryExpr:
			if s.Op == token.AND {
				// address taken & passed: treat as potential write
				lhs(s.X)
			}
		}
		return true
	})
	return mi
}

func sortedObjs(m map[types.Object]bool) []types.Object {
	var l []types.Object
	for o := range m {
		l = append(l, o)
	}
	sort.Slice(l, func(i, j int) bool { return l[i].Pos() < l[j].Pos() })
	return l
}

// inspectNonExiting walks a loop body but skips statements that cannot reach the back edge:
// return statements and blocks whose last statement is a return (their effects never influence a later iteration).
func inspectNonExiting(n ast.Node, f func(ast.Node) bool) {
	ast.Inspect(n, func(x ast.Node) bool {
		switch s := x.(type) {
		case *ast.ReturnStmt:
			return false
		case *ast.BlockStmt:
			if len(s.List) > 0 {
				if _, ok := s.List[len(s.List)-1].(*ast.ReturnStmt); ok && !containsBranch(s) {
					return false
				}
			}
		}
		return f(x)
	})
}

func containsBranch(n ast.Node) bool {
	found := false
	ast.Inspect(n, func(x ast.Node) bool {
		if b, ok := x.(*ast.BranchStmt); ok && (b.Tok == token.CONTINUE || b.Tok == token.GOTO || b.Tok == token.BREAK) {
			found = true
		}
		return !found
	})
	return found
}

type preservedObj struct {
	name string
	elem types.Type
	arr  *Term
	idx  *Term
}

var splitQuantGoals = false
