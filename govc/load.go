package main

// Loading /repo with -tags=verif and reading //@ contracts.

import (
	"fmt"
	"go/ast"
	"go/parser"
	"go/token"
	"go/types"
	"os"
	"regexp"
	"sort"
	"strings"

	"golang.org/x/tools/go/packages"
)

type Program struct {
	Fset  *token.FileSet
	Pkgs  map[string]*packages.Package // by import path (all, incl. deps)
	Root  []*packages.Package
	Funcs map[string]*FuncInfo // full name -> info (for funcs with syntax)
	// contracts
	Contracts map[string]*Contract // full func name -> contract
	HeapClass map[string]bool      // type full names
	Lemmas    []*Lemma
	Errors    []string
}

type FuncInfo struct {
	Pkg  *packages.Package
	Decl *ast.FuncDecl
	Obj  *types.Func
	// goroutine-body units ("<enclosing>$go<N>": the N-th `go func(){...}()` literal of the enclosing function, in
	// source order): Decl is synthesised from the literal (same Type and Body nodes, so positions, scopes and type
	// information are those of the real code); Free lists the captured variables, bound like parameters.
	Name string
	Free []*types.Var
}

func (fi *FuncInfo) Full() string {
	if fi.Name != "" {
		return fi.Name
	}
	return funcFullName(fi.Obj)
}

// goBodies registers the goroutine bodies of fd as units of their own.
func (p *Program) goBodies(pk *packages.Package, fd *ast.FuncDecl, full string) {
	n, nfn := 0, 0
	goLits := map[*ast.FuncLit]bool{}
	ast.Inspect(fd.Body, func(nd ast.Node) bool {
		if gs, ok := nd.(*ast.GoStmt); ok {
			if lit, ok := gs.Call.Fun.(*ast.FuncLit); ok {
				goLits[lit] = true
			}
		}
		return true
	})
	ast.Inspect(fd.Body, func(nd ast.Node) bool {
		lit, ok := nd.(*ast.FuncLit)
		if !ok {
			return true
		}
		sig, _ := pk.TypesInfo.TypeOf(lit).(*types.Signature)
		if sig == nil {
			return true
		}
		// "<func>$goN": N-th literal started by a go statement; "<func>$fnN": N-th other function literal (handlers,
		// callbacks) - both in source order
		var name string
		if goLits[lit] {
			n++
			name = fmt.Sprintf("%s$go%d", full, n)
		} else {
			nfn++
			name = fmt.Sprintf("%s$fn%d", full, nfn)
		}
		short := name[strings.LastIndex(name, ".")+1:]
		obj := types.NewFunc(lit.Pos(), pk.Types, short, sig)
		seen := map[*types.Var]bool{}
		var free []*types.Var
		ast.Inspect(lit.Body, func(m ast.Node) bool {
			id, ok := m.(*ast.Ident)
			if !ok {
				return true
			}
			o, ok := pk.TypesInfo.Uses[id].(*types.Var)
			if !ok || o.IsField() || seen[o] {
				return true
			}
			if o.Pkg() != nil && o.Parent() == o.Pkg().Scope() {
				return true
			}
			if o.Pos() >= lit.Pos() && o.Pos() < lit.End() {
				return true
			}
			seen[o] = true
			free = append(free, o)
			return true
		})
		p.Funcs[name] = &FuncInfo{Pkg: pk, Obj: obj, Name: name, Free: free,
			Decl: &ast.FuncDecl{Name: ast.NewIdent(short), Type: lit.Type, Body: lit.Body}}
		return true
	})
}

type LoopSpec struct {
	Ordinal    int
	Snippet    string
	Invariants []*Clause
	Decreases  *Clause
	Modifies   []*Clause
	StepEns    []*Clause
	Unroll     int
}

type AtSpec struct {
	Snippet string
	Occur   int
	Kind    string // assert, assume, ghost
	Clause  *Clause
}

type Clause struct {
	Text string
	Expr ast.Expr
	File string
	Line int
	Tag  string // optional label
	Guard *Clause // modifies ... if guard
}

type Contract struct {
	FuncName  string // as written
	Full      string // resolved full name
	Extern    bool
	Pure      bool
	Inline    bool
	Trusted   bool // assumed, not verified (listed)
	Requires  []*Clause
	Ensures   []*Clause
	Assumes   []*Clause // assumed at call sites, never proved against the body (ghost-definitional facts; listed as assumptions)
	Modifies  []*Clause
	Decreases *Clause
	Loops     map[int]*LoopSpec
	Ats       []*AtSpec
	Bounded   []*BoundedSpec
	Params    []string // for externs without syntax: names
	Results   []string
	File      string
	Line      int
	NoFrame   bool
	Sweep     bool
	TailDup   bool // execute a final return separately per branch of the preceding if
	Preserves []*Clause // objects (by pointer parameter) the function must never store into
}

type BoundedSpec struct {
	N        int
	Requires []*Clause
	Ensures  []*Clause
}

type Lemma struct {
	Name     string
	Params   []string // all Int
	Requires []*Clause
	Ensures  []*Clause
	File     string
	Line     int
}

func funcFullName(f *types.Func) string {
	sig := f.Type().(*types.Signature)
	if r := sig.Recv(); r != nil {
		t := r.Type()
		ptr := ""
		if p, ok := t.(*types.Pointer); ok {
			t = p.Elem()
			ptr = "*"
		}
		if n, ok := t.(*types.Named); ok {
			pk := ""
			if n.Obj().Pkg() != nil {
				pk = n.Obj().Pkg().Path()
			}
			return fmt.Sprintf("%s.(%s%s).%s", pk, ptr, n.Obj().Name(), f.Name())
		}
		return "?." + f.Name()
	}
	if f.Pkg() == nil {
		return f.Name()
	}
	return f.Pkg().Path() + "." + f.Name()
}

func LoadProgram(dir string, patterns []string) (*Program, error) {
	fset := token.NewFileSet()
	cfg := &packages.Config{
		Mode: packages.NeedName | packages.NeedFiles | packages.NeedSyntax | packages.NeedTypes |
			packages.NeedTypesInfo | packages.NeedDeps | packages.NeedImports | packages.NeedCompiledGoFiles,
		Dir:        dir,
		Fset:       fset,
		BuildFlags: []string{"-tags=verif"},
		Env:        append(os.Environ(), "GOFLAGS=-mod=mod", "GOPROXY=off", "GOSUMDB=off", "GOTOOLCHAIN=local"),
		ParseFile: func(fset *token.FileSet, filename string, src []byte) (*ast.File, error) {
			return parser.ParseFile(fset, filename, src, parser.ParseComments|parser.SkipObjectResolution)
		},
	}
	pkgs, err := packages.Load(cfg, patterns...)
	if err != nil {
		return nil, err
	}
	p := &Program{Fset: fset, Pkgs: map[string]*packages.Package{}, Funcs: map[string]*FuncInfo{},
		Contracts: map[string]*Contract{}, HeapClass: map[string]bool{}}
	p.Root = pkgs
	var errs []string
	packages.Visit(pkgs, nil, func(pk *packages.Package) {
		p.Pkgs[pk.PkgPath] = pk
		for _, e := range pk.Errors {
			if strings.HasPrefix(pk.PkgPath, "github.com/tdewolff/minify") {
				errs = append(errs, e.Error())
			}
		}
		for _, f := range pk.Syntax {
			for _, d := range f.Decls {
				fd, ok := d.(*ast.FuncDecl)
				if !ok || fd.Body == nil {
					continue
				}
				obj, _ := pk.TypesInfo.Defs[fd.Name].(*types.Func)
				if obj == nil {
					continue
				}
				p.Funcs[funcFullName(obj)] = &FuncInfo{Pkg: pk, Decl: fd, Obj: obj}
				if strings.HasPrefix(pk.PkgPath, "github.com/tdewolff/minify/v2") {
					p.goBodies(pk, fd, funcFullName(obj))
				}
			}
		}
	})
	if len(errs) > 0 {
		return nil, fmt.Errorf("load errors: %s", strings.Join(errs, "; "))
	}
	// contract files of every loaded package of the module (roots and dependencies alike)
	var withContracts []*packages.Package
	for path, pk := range p.Pkgs {
		if strings.HasPrefix(path, "github.com/tdewolff/minify/v2") {
			withContracts = append(withContracts, pk)
		}
	}
	sort.Slice(withContracts, func(i, j int) bool { return withContracts[i].PkgPath < withContracts[j].PkgPath })
	for _, pk := range withContracts {
		for i, f := range pk.Syntax {
			if i >= len(pk.CompiledGoFiles) {
				continue
			}
			name := pk.CompiledGoFiles[i]
			if strings.HasSuffix(name, "_verif.go") {
				p.readContracts(pk, f, name)
			}
		}
	}
	return p, nil
}

var clauseKeywords = map[string]bool{
	"func": true, "extern": true, "requires": true, "ensures": true, "modifies": true, "decreases": true,
	"invariant": true, "assumes": true, "loop": true, "at": true, "lemma": true, "bounded": true, "pure": true, "inline": true,
	"heapclass": true, "step": true, "preserves": true, "taildup": true, "trusted": true, "noframe": true, "sweep": true, "params": true, "results": true,
	"import": true,
}

var impliesRe = regexp.MustCompile(`==>`)

// rewriteImplies turns "a ==> b" into implies(a, b), right-assoc, lowest precedence, respecting parentheses/commas.
func rewriteImplies(s string) string {
	// find top-level (depth 0) "==>" occurrence (first one -> right assoc)
	depth := 0
	inStr := byte(0)
	for i := 0; i < len(s); i++ {
		c := s[i]
		if inStr != 0 {
			if c == '\\' {
				i++
			} else if c == inStr {
				inStr = 0
			}
			continue
		}
		switch c {
		case '"', '\'', '`':
			inStr = c
		case '(', '[', '{':
			depth++
		case ')', ']', '}':
			depth--
		case '=':
			if depth == 0 && strings.HasPrefix(s[i:], "==>") {
				return "implies(" + rewriteImplies(s[:i]) + ", " + rewriteImplies(s[i+3:]) + ")"
			}
		}
	}
	// recurse into parenthesised groups / call args
	var sb strings.Builder
	depth = 0
	start := -1
	inStr = 0
	for i := 0; i < len(s); i++ {
		c := s[i]
		if inStr != 0 {
			if depth == 0 {
				sb.WriteByte(c)
			}
			if c == '\\' {
				i++
				if depth == 0 && i < len(s) {
					sb.WriteByte(s[i])
				}
			} else if c == inStr {
				inStr = 0
			}
			continue
		}
		if c == '"' || c == '\'' || c == '`' {
			inStr = c
			if depth == 0 {
				sb.WriteByte(c)
			}
			continue
		}
		if c == '(' || c == '[' {
			if depth == 0 {
				sb.WriteByte(c)
				start = i + 1
			}
			depth++
			continue
		}
		if c == ')' || c == ']' {
			depth--
			if depth == 0 {
				inner := s[start:i]
				// split on top-level commas
				parts := splitTop(inner, ',')
				for k, p := range parts {
					if k > 0 {
						sb.WriteByte(',')
					}
					sb.WriteString(rewriteImplies(p))
				}
				sb.WriteByte(c)
			}
			continue
		}
		if depth == 0 {
			sb.WriteByte(c)
		}
	}
	return sb.String()
}

func splitTop(s string, sep byte) []string {
	var parts []string
	depth := 0
	inStr := byte(0)
	last := 0
	for i := 0; i < len(s); i++ {
		c := s[i]
		if inStr != 0 {
			if c == '\\' {
				i++
			} else if c == inStr {
				inStr = 0
			}
			continue
		}
		switch c {
		case '"', '\'', '`':
			inStr = c
		case '(', '[', '{':
			depth++
		case ')', ']', '}':
			depth--
		default:
			if c == sep && depth == 0 {
				parts = append(parts, s[last:i])
				last = i + 1
			}
		}
	}
	parts = append(parts, s[last:])
	return parts
}

func (p *Program) errf(file string, line int, format string, a ...interface{}) {
	p.Errors = append(p.Errors, fmt.Sprintf("%s:%d: %s", file, line, fmt.Sprintf(format, a...)))
}

func (p *Program) parseClause(file string, line int, text string) *Clause {
	t := strings.TrimSpace(text)
	// strip trailing comment  " // ..."
	if i := strings.Index(t, " // "); i >= 0 {
		t = strings.TrimSpace(t[:i])
	}
	tag := ""
	if strings.HasPrefix(t, "[") {
		if j := strings.Index(t, "]"); j > 0 {
			tag = t[1:j]
			t = strings.TrimSpace(t[j+1:])
		}
	}
	src := rewriteImplies(t)
	e, err := parser.ParseExpr(src)
	if err != nil {
		p.errf(file, line, "cannot parse clause %q: %v", src, err)
		return nil
	}
	return &Clause{Text: t, Expr: e, File: file, Line: line, Tag: tag}
}

type rawLine struct {
	line int
	text string
}

func (p *Program) readContracts(pk *packages.Package, f *ast.File, filename string) {
	var lines []rawLine
	for _, cg := range f.Comments {
		for _, c := range cg.List {
			if strings.HasPrefix(c.Text, "//@") {
				lines = append(lines, rawLine{p.Fset.Position(c.Pos()).Line, strings.TrimRight(c.Text[3:], " \t")})
			}
		}
	}
	// merge continuation lines
	type item struct {
		line int
		kw   string
		rest string
	}
	var items []item
	for _, l := range lines {
		t := strings.TrimSpace(l.text)
		if t == "" {
			continue
		}
		kw := t
		rest := ""
		if i := strings.IndexAny(t, " \t"); i >= 0 {
			kw, rest = t[:i], strings.TrimSpace(t[i+1:])
		}
		if clauseKeywords[kw] {
			items = append(items, item{l.line, kw, rest})
		} else if len(items) > 0 {
			items[len(items)-1].rest += " " + t
		} else {
			p.errf(filename, l.line, "stray contract line %q", t)
		}
	}
	imports := map[string]string{} // alias -> path
	for _, im := range f.Imports {
		path := strings.Trim(im.Path.Value, `"`)
		name := path[strings.LastIndex(path, "/")+1:]
		if name == "v2" {
			// e.g. github.com/tdewolff/parse/v2 -> parse
			pp := strings.TrimSuffix(path, "/v2")
			name = pp[strings.LastIndex(pp, "/")+1:]
		}
		if im.Name != nil {
			name = im.Name.Name
		}
		imports[name] = path
	}
	var cur *Contract
	var curLoop *LoopSpec
	var curLemma *Lemma
	var curBounded *BoundedSpec
	inStep := false
	for _, it := range items {
		switch it.kw {
		case "import":
			// import alias "path"
			parts := strings.Fields(it.rest)
			if len(parts) == 2 {
				imports[parts[0]] = strings.Trim(parts[1], `"`)
			}
		case "heapclass":
			for _, n := range strings.Fields(it.rest) {
				p.HeapClass[p.resolveTypeName(pk, imports, n)] = true
			}
		case "func", "extern":
			curLoop, curLemma, curBounded = nil, nil, nil
			name := strings.Fields(it.rest)[0]
			full := p.resolveFuncName(pk, imports, name)
			cur = &Contract{FuncName: name, Full: full, Extern: it.kw == "extern", Loops: map[int]*LoopSpec{}, File: filename, Line: it.line}
			if _, dup := p.Contracts[full]; dup {
				p.errf(filename, it.line, "duplicate contract for %s", full)
			}
			p.Contracts[full] = cur
		case "lemma":
			cur, curLoop, curBounded = nil, nil, nil
			// lemma name(a, b, c)
			r := it.rest
			i := strings.Index(r, "(")
			curLemma = &Lemma{Name: strings.TrimSpace(r[:i]), File: filename, Line: it.line}
			for _, a := range strings.Split(strings.TrimSuffix(strings.TrimSpace(r[i+1:]), ")"), ",") {
				if a = strings.TrimSpace(a); a != "" {
					curLemma.Params = append(curLemma.Params, a)
				}
			}
			p.Lemmas = append(p.Lemmas, curLemma)
		case "pure":
			if cur != nil {
				cur.Pure = true
			}
		case "inline":
			if cur != nil {
				cur.Inline = true
			}
		case "trusted":
			if cur != nil {
				cur.Trusted = true
			}
		case "taildup":
			if cur != nil {
				cur.TailDup = true
			}
		case "noframe":
			if cur != nil {
				cur.NoFrame = true
			}
		case "sweep":
			if cur != nil {
				cur.Sweep = true
			}
		case "params":
			if cur != nil {
				cur.Params = strings.Fields(strings.ReplaceAll(it.rest, ",", " "))
			}
		case "results":
			if cur != nil {
				cur.Results = strings.Fields(strings.ReplaceAll(it.rest, ",", " "))
			}
		case "requires":
			c := p.parseClause(filename, it.line, it.rest)
			if c == nil {
				continue
			}
			if curLemma != nil {
				curLemma.Requires = append(curLemma.Requires, c)
			} else if curBounded != nil {
				curBounded.Requires = append(curBounded.Requires, c)
			} else if cur != nil {
				cur.Requires = append(cur.Requires, c)
			}
		case "ensures":
			c := p.parseClause(filename, it.line, it.rest)
			if c == nil {
				continue
			}
			if curLemma != nil {
				curLemma.Ensures = append(curLemma.Ensures, c)
			} else if curBounded != nil {
				curBounded.Ensures = append(curBounded.Ensures, c)
			} else if curLoop != nil && inStep {
				curLoop.StepEns = append(curLoop.StepEns, c)
			} else if cur != nil {
				cur.Ensures = append(cur.Ensures, c)
			}
		case "assumes":
			if c := p.parseClause(filename, it.line, it.rest); c != nil && cur != nil {
				cur.Assumes = append(cur.Assumes, c)
			}
		case "modifies":
			if cur == nil {
				continue
			}
			for _, part := range splitTop(it.rest, ',') {
				if strings.TrimSpace(part) == "nothing" {
					continue
				}
				guard := ""
				if i := strings.Index(part, " if "); i >= 0 {
					guard = strings.TrimSpace(part[i+4:])
					part = part[:i]
				}
				c := p.parseClause(filename, it.line, part)
				if c == nil {
					continue
				}
				if guard != "" {
					c.Guard = p.parseClause(filename, it.line, guard)
				}
				if curLoop != nil {
					curLoop.Modifies = append(curLoop.Modifies, c)
				} else {
					cur.Modifies = append(cur.Modifies, c)
				}
			}
		case "preserves":
			if cur != nil {
				for _, part := range splitTop(it.rest, ',') {
					if c := p.parseClause(filename, it.line, strings.TrimPrefix(strings.TrimSpace(part), "*")); c != nil {
						cur.Preserves = append(cur.Preserves, c)
					}
				}
			}
		case "decreases":
			c := p.parseClause(filename, it.line, it.rest)
			if curLoop != nil {
				curLoop.Decreases = c
			} else if cur != nil {
				cur.Decreases = c
			}
		case "bounded":
			if cur == nil {
				continue
			}
			n := 0
			fmt.Sscanf(it.rest, "%d", &n)
			curBounded = &BoundedSpec{N: n}
			cur.Bounded = append(cur.Bounded, curBounded)
			curLoop = nil
		case "loop":
			if cur == nil {
				continue
			}
			curBounded = nil
			inStep = false
			// loop N "snippet"
			var n int
			fmt.Sscanf(it.rest, "%d", &n)
			sn := ""
			if i := strings.Index(it.rest, `"`); i >= 0 {
				j := strings.LastIndex(it.rest, `"`)
				if j > i {
					sn = it.rest[i+1 : j]
				}
			}
			curLoop = &LoopSpec{Ordinal: n, Snippet: sn}
			cur.Loops[n] = curLoop
		case "step":
			inStep = true
		case "invariant":
			if curLoop == nil {
				p.errf(filename, it.line, "invariant outside loop")
				continue
			}
			inStep = false
			if c := p.parseClause(filename, it.line, it.rest); c != nil {
				curLoop.Invariants = append(curLoop.Invariants, c)
			}
		case "at":
			if cur == nil {
				continue
			}
			// at "snippet" #n kind expr
			i := strings.Index(it.rest, `"`)
			j := strings.Index(it.rest[i+1:], `"`)
			if i < 0 || j < 0 {
				p.errf(filename, it.line, "bad at clause")
				continue
			}
			sn := it.rest[i+1 : i+1+j]
			rest := strings.TrimSpace(it.rest[i+j+2:])
			occ := 1
			if strings.HasPrefix(rest, "#") {
				fmt.Sscanf(rest, "#%d", &occ)
				k := strings.IndexAny(rest, " \t")
				rest = strings.TrimSpace(rest[k+1:])
			}
			k := strings.IndexAny(rest, " \t")
			kind := rest[:k]
			c := p.parseClause(filename, it.line, rest[k+1:])
			if c != nil {
				cur.Ats = append(cur.Ats, &AtSpec{Snippet: sn, Occur: occ, Kind: kind, Clause: c})
			}
		}
	}
}

func (p *Program) resolveTypeName(pk *packages.Package, imports map[string]string, n string) string {
	if i := strings.LastIndex(n, "."); i >= 0 {
		if path, ok := imports[n[:i]]; ok {
			return path + "." + n[i+1:]
		}
		return n
	}
	return pk.PkgPath + "." + n
}

// resolveFuncName: "Decimal", "(*M).Bytes", "parse.ToLower", "(*parse.Input).Bytes", "strconv.ParseInt"
func (p *Program) resolveFuncName(pk *packages.Package, imports map[string]string, n string) string {
	if strings.HasPrefix(n, "(") {
		j := strings.Index(n, ")")
		recv := n[1:j]
		meth := strings.TrimPrefix(n[j+1:], ".")
		ptr := ""
		if strings.HasPrefix(recv, "*") {
			ptr = "*"
			recv = recv[1:]
		}
		path := pk.PkgPath
		if i := strings.LastIndex(recv, "."); i >= 0 {
			if ip, ok := imports[recv[:i]]; ok {
				path = ip
			} else {
				path = recv[:i]
			}
			recv = recv[i+1:]
		}
		return fmt.Sprintf("%s.(%s%s).%s", path, ptr, recv, meth)
	}
	if i := strings.LastIndex(n, "."); i >= 0 {
		if ip, ok := imports[n[:i]]; ok {
			return ip + "." + n[i+1:]
		}
		return n
	}
	return pk.PkgPath + "." + n
}

func sortedKeys[V any](m map[string]V) []string {
	var ks []string
	for k := range m {
		ks = append(ks, k)
	}
	sort.Strings(ks)
	return ks
}
