package main

import (
	"go/ast"
	"go/types"
)

// Maps: a map value is a reference m; heaps Map[T].has : Array Int (Array Int Bool),
// Map[T].val<comp> : Array Int (Array Int S). Keys are projected to Int.

func (vc *VC) mapKeyTerm(k Val) *Term {
	switch kindOf(k.T) {
	case KInt:
		return k.C[0]
	case KString:
		return vc.stringKey(k)
	case KBool:
		return Ite(k.C[0], One, Zero)
	}
	allInt := true
	for _, c := range k.C {
		if c.Sort != SInt {
			allInt = false
		}
	}
	if allInt && len(k.C) > 0 {
		return App("key_"+sanitize(typeKey(k.T)), SInt, k.C...)
	}
	return vc.fresh("key", SInt)
}

func mapHasHeap(t types.Type) string { return "Map[" + typeKey(t) + "].has" }
func mapValHeap(t types.Type, c Comp) string {
	return "Map[" + typeKey(t) + "].val" + c.Path
}

func (vc *VC) mapLoad(st *State, mt types.Type, m, k Val) (Val, *Term) {
	et := elemTypeOf(mt)
	kt := vc.mapKeyTerm(k)
	has := Select(Select(vc.heap(st, mapHasHeap(mt), ArrSortOf(ArrSortOf(SBool))), m.C[0]), kt)
	// nil map reads give zero
	has = And(Ne(m.C[0], Zero), has)
	l := layout(et)
	c := make([]*Term, len(l))
	z := zeroVal(et)
	for i, cp := range l {
		h := vc.heap(st, mapValHeap(mt, cp), heapSort(cp))
		c[i] = Ite(has, Select(Select(h, m.C[0]), kt), z.C[i])
	}
	v := Val{T: et, C: c}
	return v, has
}

func (vc *VC) mapStore(st *State, mt types.Type, m, k, v Val, n ast.Node) {
	et := elemTypeOf(mt)
	v = vc.convertTo(v, et, st, n)
	vc.oblige(st, "nil.mapwrite", n, "", Ne(m.C[0], Zero))
	kt := vc.mapKeyTerm(k)
	hn := mapHasHeap(mt)
	hh := vc.heap(st, hn, ArrSortOf(ArrSortOf(SBool)))
	st.heaps[hn] = Store(hh, m.C[0], Store(Select(hh, m.C[0]), kt, True))
	for i, cp := range layout(et) {
		name := mapValHeap(mt, cp)
		h := vc.heap(st, name, heapSort(cp))
		st.heaps[name] = Store(h, m.C[0], Store(Select(h, m.C[0]), kt, v.C[i]))
	}
}

func (vc *VC) mapDelete(st *State, mt types.Type, m, k Val) {
	kt := vc.mapKeyTerm(k)
	hn := mapHasHeap(mt)
	hh := vc.heap(st, hn, ArrSortOf(ArrSortOf(SBool)))
	st.heaps[hn] = Store(hh, m.C[0], Store(Select(hh, m.C[0]), kt, False))
}

func (vc *VC) mapInitEmpty(st *State, mt types.Type, m Val) {
	hn := mapHasHeap(mt)
	hh := vc.heap(st, hn, ArrSortOf(ArrSortOf(SBool)))
	st.heaps[hn] = Store(hh, m.C[0], ConstArr(ArrSortOf(SBool), False))
}

type originRec struct {
	row      *Term // (Array Int Int) contents the value was copied from
	off, len *Term
}

// stringKey: a map key / identity for a string that depends on its contents only (ckey is uninterpreted).
func (vc *VC) stringKey(s Val) *Term {
	if k, ok := vc.strKeys[s.C[0].id]; ok && s.C[1] == Zero {
		return k
	}
	if o, ok := vc.origins[s.C[0].id]; ok && s.C[1] == Zero {
		return App("ckey", SInt, o.row, o.off, s.C[2])
	}
	return App("ckey", SInt, Select(vc.strMem(), s.C[0]), s.C[1], s.C[2])
}
