package main

// Bounded-mode driver: explores every path of a Go harness function (in a *_verif.go contract file)
// over all inputs up to a length bound, with symbolic bytes/ints.

import (
	"bufio"
	"sync"
	"encoding/json"
	"fmt"
	"go/types"
	"math/big"
	"os"
	"os/exec"
	"runtime/debug"
	"sort"
	"strings"
	"time"
)

type BViolation struct {
	Kind    string            `json:"kind"`
	Msg     string            `json:"msg"`
	Inputs  map[string]string `json:"inputs"` // param -> Go literal
	Domains string            `json:"domains"`
}

type BResult struct {
	Harness     string       `json:"harness"`
	N           int          `json:"bound"`
	Paths       int          `json:"paths"`
	Passed      int          `json:"passed"`
	Excluded    int          `json:"excluded"`
	Violations  []BViolation `json:"violations"`
	NViol       int          `json:"n_violations"`
	Unsupported map[string]int `json:"unsupported"`
	Goals       int          `json:"residual_goals"`
	GoalsLinear int          `json:"residual_goals_decided_by_vertex_evaluation"`
	GoalsSolver int          `json:"residual_goals_decided_by_solver"`
	Steps       int64        `json:"steps"`
	MaxDepth    int          `json:"max_decisions"`
	Seconds     float64      `json:"seconds"`
	Samples     []string     `json:"samples"`
	Error       string       `json:"error,omitempty"`
}

// addViolation keeps at most 3 witnesses per distinct message class and 30 overall.
func (r *BResult) addViolation(v BViolation) {
	key := v.Msg
	if len(key) > 24 {
		key = key[:24]
	}
	n := 0
	for _, x := range r.Violations {
		k := x.Msg
		if len(k) > 24 {
			k = k[:24]
		}
		if k == key {
			n++
		}
	}
	if n < 3 && len(r.Violations) < 30 {
		r.Violations = append(r.Violations, v)
	}
}

func (r *BResult) merge(o *BResult) {
	r.Paths += o.Paths
	r.Passed += o.Passed
	r.Excluded += o.Excluded
	r.NViol += o.NViol
	for _, v := range o.Violations {
		r.addViolation(v)
	}
	if r.Unsupported == nil {
		r.Unsupported = map[string]int{}
	}
	for k, v := range o.Unsupported {
		r.Unsupported[k] += v
	}
	r.Goals += o.Goals
	r.GoalsLinear += o.GoalsLinear
	r.GoalsSolver += o.GoalsSolver
	r.Steps += o.Steps
	if o.MaxDepth > r.MaxDepth {
		r.MaxDepth = o.MaxDepth
	}
	for _, s := range o.Samples {
		if len(r.Samples) < 8 {
			r.Samples = append(r.Samples, s)
		}
	}
	if o.Error != "" {
		r.Error = o.Error
	}
}

type bInput struct {
	name string
	t    types.Type
	syms []string // byte syms (for slices) or the int sym
	lenV int
	kind Kind
}

// setupInputs creates the symbolic arguments of the harness.
func (bx *BX) setupInputs(fi *FuncInfo, N int) ([]BVal, []*bInput) {
	sig := fi.Obj.Type().(*types.Signature)
	var args []BVal
	var ins []*bInput
	for i := 0; i < sig.Params().Len(); i++ {
		p := sig.Params().At(i)
		in := &bInput{name: p.Name(), t: p.Type(), kind: kindOf(p.Type())}
		switch kindOf(p.Type()) {
		case KSlice, KString:
			n := bx.choose(N + 1)
			in.lenV = n
			isStr := kindOf(p.Type()) == KString
			guard := 1
			if isStr {
				guard = 0
			}
			arr := bx.newArr(n+guard, func() BVal { return Zero })
			for k := 0; k < n+guard; k++ {
				name := fmt.Sprintf("%s_%d", p.Name(), k)
				arr.cells[k] = bx.newSym(name, []ival{{big.NewInt(0), big.NewInt(255)}}, true)
				in.syms = append(in.syms, name)
			}
			args = append(args, BSlice{arr: arr, off: 0, len: n, cap: n + guard, str: isStr})
		case KInt:
			lo, hi := intRangeOf(p.Type())
			name := p.Name()
			args = append(args, bx.newSym(name, []ival{{lo, hi}}, false))
			in.syms = []string{name}
		case KBool:
			if bx.choose(2) == 0 {
				args = append(args, False)
				in.lenV = 0
			} else {
				args = append(args, True)
				in.lenV = 1
			}
		default:
			bx.abort("unsupported", "harness parameter type %s", typeKey(p.Type()))
		}
		ins = append(ins, in)
	}
	return args, ins
}

func (bx *BX) inputLiterals(ins []*bInput, w map[string]*big.Int) map[string]string {
	out := map[string]string{}
	for _, in := range ins {
		switch in.kind {
		case KSlice, KString:
			var sb strings.Builder
			for k := 0; k < in.lenV; k++ {
				v := w[in.syms[k]]
				if v == nil {
					v = big.NewInt(0)
				}
				sb.WriteByte(byte(v.Int64()))
			}
			if in.kind == KString {
				out[in.name] = fmt.Sprintf("%q", sb.String())
			} else {
				g := int64(0)
				if len(in.syms) > in.lenV && w[in.syms[in.lenV]] != nil {
					g = w[in.syms[in.lenV]].Int64()
				}
				out[in.name] = fmt.Sprintf("mkbytes(%q, %d)", sb.String(), g)
			}
		case KInt:
			v := w[in.syms[0]]
			if v == nil {
				v = big.NewInt(0)
			}
			out[in.name] = fmt.Sprintf("%s(%s)", typeKey(in.t), v.String())
		case KBool:
			out[in.name] = fmt.Sprintf("%v", in.lenV == 1)
		}
	}
	return out
}

// linear form of an Int term over symbols
type linForm struct {
	k map[string]*big.Int
	c *big.Int
}

func (bx *BX) linform(t *Term) (*linForm, bool) {
	switch t.Op {
	case "const":
		return &linForm{k: map[string]*big.Int{}, c: t.K}, true
	case "var":
		if s, ok := bx.syms[t.Name]; ok {
			if v, single := s.singleton(); single {
				return &linForm{k: map[string]*big.Int{}, c: v}, true
			}
			return &linForm{k: map[string]*big.Int{t.Name: big.NewInt(1)}, c: big.NewInt(0)}, true
		}
		return nil, false
	case "+", "-":
		a, ok1 := bx.linform(t.Args[0])
		b, ok2 := bx.linform(t.Args[1])
		if !ok1 || !ok2 {
			return nil, false
		}
		r := &linForm{k: map[string]*big.Int{}, c: new(big.Int)}
		for n, k := range a.k {
			r.k[n] = new(big.Int).Set(k)
		}
		sign := big.NewInt(1)
		if t.Op == "-" {
			sign = big.NewInt(-1)
		}
		for n, k := range b.k {
			if r.k[n] == nil {
				r.k[n] = new(big.Int)
			}
			r.k[n].Add(r.k[n], new(big.Int).Mul(sign, k))
		}
		r.c.Add(a.c, new(big.Int).Mul(sign, b.c))
		return r, true
	case "*":
		a, ok1 := bx.linform(t.Args[0])
		b, ok2 := bx.linform(t.Args[1])
		if !ok1 || !ok2 {
			return nil, false
		}
		if len(a.k) > 0 && len(b.k) > 0 {
			return nil, false
		}
		if len(a.k) > 0 {
			a, b = b, a
		}
		r := &linForm{k: map[string]*big.Int{}, c: new(big.Int).Mul(a.c, b.c)}
		for n, k := range b.k {
			r.k[n] = new(big.Int).Mul(a.c, k)
		}
		return r, true
	}
	return nil, false
}

// extremes of a linear form over the (independent) symbol domains, with the attaining valuation
func (bx *BX) linExtremes(f *linForm) (mn, mx *big.Int, argmin, argmax map[string]*big.Int) {
	mn, mx = new(big.Int).Set(f.c), new(big.Int).Set(f.c)
	argmin, argmax = map[string]*big.Int{}, map[string]*big.Int{}
	for n, k := range f.k {
		s := bx.syms[n]
		lo, hi := s.dom[0].lo, s.dom[len(s.dom)-1].hi
		if k.Sign() >= 0 {
			mn.Add(mn, new(big.Int).Mul(k, lo))
			mx.Add(mx, new(big.Int).Mul(k, hi))
			argmin[n], argmax[n] = lo, hi
		} else {
			mn.Add(mn, new(big.Int).Mul(k, hi))
			mx.Add(mx, new(big.Int).Mul(k, lo))
			argmin[n], argmax[n] = hi, lo
		}
	}
	return
}

// decideGoal: 1 proved, 0 refuted (with witness overrides), -1 unknown
func (bx *BX) decideGoal(t *Term) (int, map[string]*big.Int) {
	t = bx.norm(t)
	switch t.Op {
	case "bool":
		if t.B {
			return 1, nil
		}
		return 0, nil
	case "and":
		unknown := false
		for _, a := range t.Args {
			r, w := bx.decideGoal(a)
			if r == 0 {
				return 0, w
			}
			if r < 0 {
				unknown = true
			}
		}
		if unknown {
			return -1, nil
		}
		return 1, nil
	case "<", "<=":
		f, ok := bx.linform(Sub(t.Args[0], t.Args[1]))
		if !ok {
			return -1, nil
		}
		_, mx, _, argmax := bx.linExtremes(f)
		if t.Op == "<" && mx.Sign() < 0 || t.Op == "<=" && mx.Sign() <= 0 {
			return 1, nil
		}
		return 0, argmax
	case "=":
		if t.Args[0].Sort != SInt {
			return -1, nil
		}
		f, ok := bx.linform(Sub(t.Args[0], t.Args[1]))
		if !ok {
			return -1, nil
		}
		mn, mx, argmin, argmax := bx.linExtremes(f)
		if mn.Sign() == 0 && mx.Sign() == 0 {
			return 1, nil
		}
		if mx.Sign() != 0 {
			return 0, argmax
		}
		return 0, argmin
	}
	return -1, nil
}

func (bx *BX) solveGoal(t *Term) (bool, map[string]*big.Int, string) {
	var assumes []*Term
	var vals []*Term
	for _, n := range bx.symOrder {
		s := bx.syms[n]
		v := Var(n, SInt)
		var ds []*Term
		for _, iv := range s.dom {
			ds = append(ds, And(Le(IntBig(iv.lo), v), Le(v, IntBig(iv.hi))))
		}
		assumes = append(assumes, Or(ds...))
		vals = append(vals, v)
	}
	assumes = append(assumes, bx.residual...)
	// table functions are expanded to ite-chains over their (small) argument domains
	t = bx.expandTables(t)
	for i, a := range assumes {
		assumes[i] = bx.expandTables(a)
	}
	res := Solve(&Query{Assumes: assumes, Goal: t, Values: vals}, 10, 30)
	if res.Status == "unsat" {
		return true, nil, res.Solver
	}
	w := map[string]*big.Int{}
	if res.Status == "sat" {
		for i, vs := range res.Values {
			if v, ok := parseIntValue(vs); ok && i < len(vals) {
				w[vals[i].Name] = big.NewInt(v)
			}
		}
	}
	return false, w, res.Status + " by " + res.Solver
}

func (bx *BX) expandTables(t *Term) *Term {
	if len(bx.tbls) == 0 {
		return t
	}
	cache := map[int]*Term{}
	var rec func(t *Term) *Term
	rec = func(t *Term) *Term {
		if r, ok := cache[t.id]; ok {
			return r
		}
		var r *Term
		if t.Op == "app" {
			if fn, ok := bx.tbls[t.Name]; ok {
				arg := rec(t.Args[0])
				lo, hi := bx.bounds(t.Args[0])
				if lo == nil || new(big.Int).Sub(hi, lo).Cmp(big.NewInt(4096)) > 0 {
					bx.abort("unsupported", "table function over unbounded argument")
				}
				var acc *Term
				for v := new(big.Int).Set(hi); v.Cmp(lo) >= 0; v = new(big.Int).Sub(v, big.NewInt(1)) {
					rv, ok := fn.f(v.Int64())
					var rt *Term
					if !ok {
						rv = 0
					}
					if fn.sort == SBool {
						rt = BoolK(rv != 0)
					} else {
						rt = IntK(rv)
					}
					if acc == nil {
						acc = rt
					} else {
						acc = Ite(Eq(arg, IntBig(v)), rt, acc)
					}
				}
				r = acc
			}
		}
		if r == nil {
			if len(t.Args) == 0 {
				r = t
			} else {
				args := make([]*Term, len(t.Args))
				ch := false
				for i, a := range t.Args {
					args[i] = rec(a)
					if args[i] != a {
						ch = true
					}
				}
				if ch {
					r = rebuild(t, args)
				} else {
					r = t
				}
			}
		}
		cache[t.id] = r
		return r
	}
	return rec(t)
}

// explore runs the DFS over all paths extending each given prefix.
func exploreBounded(prog *Program, harness string, N int, prefixes [][]decision, splitDepth int, deadline time.Time, maxPaths ...int) (*BResult, [][]decision) {
	budgetPaths := 0
	if len(maxPaths) > 0 {
		budgetPaths = maxPaths[0]
	}
	res := &BResult{Harness: harness, N: N, Unsupported: map[string]int{}}
	fi, ok := prog.Funcs[harness]
	if !ok {
		res.Error = "harness function not found: " + harness
		return res, nil
	}
	bx := newBX(prog)
	var outPrefixes [][]decision
	t0 := time.Now()
	if prefixes == nil {
		prefixes = [][]decision{nil}
	}
	for pi, prefix := range prefixes {
		bx.decisions = append([]decision{}, prefix...)
		base := len(prefix)
		if budgetPaths > 0 && res.Paths >= budgetPaths {
			// hand the untouched prefixes back
			outPrefixes = append(outPrefixes, prefixes[pi:]...)
			break
		}
		for {
			if budgetPaths > 0 && res.Paths >= budgetPaths {
				// split: the current vector itself plus, for every level above the prefix, the unexplored siblings
				outPrefixes = append(outPrefixes, append([]decision{}, bx.decisions...))
				for d := len(bx.decisions) - 1; d >= base; d-- {
					for c := bx.decisions[d].choice + 1; c < bx.decisions[d].n; c++ {
						np := append([]decision{}, bx.decisions[:d]...)
						np = append(np, decision{c, bx.decisions[d].n})
						outPrefixes = append(outPrefixes, np)
					}
				}
				break
			}
			if !deadline.IsZero() && time.Now().After(deadline) {
				res.Error = "time budget exceeded before exploration completed"
				res.Seconds = time.Since(t0).Seconds()
				return res, outPrefixes
			}
			bx.resetPath()
			var ins []*bInput
			status, msg := "pass", ""
			var wOverride map[string]*big.Int
			func() {
				defer func() {
					if r := recover(); r != nil {
						if pa, ok := r.(pathAbort); ok {
							status, msg = pa.kind, pa.msg
							return
						}
						if s, ok := r.(string); ok && strings.HasPrefix(s, "split") {
							status = "split"
							return
						}
						status, msg = "unsupported", fmt.Sprintf("interpreter panic: %v", r)
					}
				}()
				var args []BVal
				args, ins = bx.setupInputs(fi, N)
				if splitDepth > 0 {
					bx.splitAt = splitDepth
				}
				nf := &bframe{vars: map[types.Object]*BVar{}, info: fi.Pkg.TypesInfo, fi: fi}
				r := bx.runBody(nf, fi.Decl.Type, fi.Decl.Body, nil, nil, false, args)
				rt, _ := r.(*Term)
				if rt == nil {
					bx.abort("unsupported", "harness must return bool")
				}
				if !bx.decide(rt) {
					bx.abort("violation", "harness returned false")
				}
				// residual goals
				for _, g := range bx.goals {
					res.Goals++
					d, w := bx.decideGoal(g)
					if d == 1 {
						res.GoalsLinear++
						continue
					}
					if d == 0 {
						res.GoalsLinear++
						wOverride = w
						bx.abort("violation", "prove() goal refuted: %s", clipS(g.String(), 300))
					}
					ok, w, how := bx.solveGoal(g)
					res.GoalsSolver++
					if !ok {
						wOverride = w
						if strings.HasPrefix(how, "sat") {
							bx.abort("violation", "prove() goal refuted (%s): %s", how, clipS(g.String(), 300))
						}
						bx.abort("unsupported", "prove() goal undecided (%s)", how)
					}
				}
			}()
			if status == "split" {
				outPrefixes = append(outPrefixes, append([]decision{}, bx.decisions[:bx.depth]...))
				bx.decisions = bx.decisions[:bx.depth]
			} else {
				res.Paths++
				res.Steps += int64(bx.steps)
				if len(bx.decisions) > res.MaxDepth {
					res.MaxDepth = len(bx.decisions)
				}
				switch status {
				case "pass":
					res.Passed++
					if len(res.Samples) < 4 && res.Paths%997 == 1 {
						res.Samples = append(res.Samples, bx.describePath(ins))
					}
				case "excluded":
					res.Excluded++
				case "violation", "unwind":
					res.NViol++
					w := bx.witness()
					for k, v := range wOverride {
						w[k] = v
					}
					res.addViolation(BViolation{Kind: status, Msg: msg, Inputs: bx.inputLiterals(ins, w), Domains: bx.describePath(ins)})
				default:
					res.Unsupported[clipS(msg, 160)]++
				}
			}
			if nextID > 3000000 {
				resetIntern()
			}
			// advance, never popping below the prefix
			advanced := false
			for len(bx.decisions) > base {
				last := &bx.decisions[len(bx.decisions)-1]
				if last.choice+1 < last.n {
					last.choice++
					advanced = true
					break
				}
				bx.decisions = bx.decisions[:len(bx.decisions)-1]
			}
			if !advanced {
				break
			}
		}
	}
	res.Seconds = time.Since(t0).Seconds()
	return res, outPrefixes
}

func clipS(s string, n int) string {
	if len(s) > n {
		return s[:n] + "…"
	}
	return s
}

func (bx *BX) describePath(ins []*bInput) string {
	var parts []string
	for _, in := range ins {
		switch in.kind {
		case KSlice, KString:
			var cs []string
			for k := 0; k < in.lenV; k++ {
				s := bx.syms[in.syms[k]]
				cs = append(cs, domChars(s.dom))
			}
			parts = append(parts, fmt.Sprintf("%s=[%s]", in.name, strings.Join(cs, " ")))
		case KInt:
			parts = append(parts, fmt.Sprintf("%s∈%s", in.name, domString(bx.syms[in.syms[0]].dom)))
		case KBool:
			parts = append(parts, fmt.Sprintf("%s=%v", in.name, in.lenV == 1))
		}
	}
	return strings.Join(parts, " ")
}

func domChars(d []ival) string {
	var parts []string
	for _, iv := range d {
		f := func(v *big.Int) string {
			c := v.Int64()
			if c > 32 && c < 127 {
				return string(rune(c))
			}
			return fmt.Sprintf("\\x%02x", c)
		}
		if iv.lo.Cmp(iv.hi) == 0 {
			parts = append(parts, f(iv.lo))
		} else {
			parts = append(parts, f(iv.lo)+"-"+f(iv.hi))
		}
	}
	return strings.Join(parts, ",")
}

func resetIntern() {
	internMu.Lock()
	defer internMu.Unlock()
	// constants held in package variables / the small-int cache stay valid (they are only ever compared structurally
	// or by pointer among themselves); everything else is dropped
	intern = map[string]*Term{}
	keep := map[ikey]*Term{}
	for k, t := range internS {
		if t.Op == "const" || t.Op == "bool" {
			if t.Op == "bool" || (t.K.IsInt64() && t.K.Int64() >= smallLo && t.K.Int64() <= smallHi) {
				keep[k] = t
			}
		}
	}
	internS = keep
	quantMu.Lock()
	quantMemo = map[int]bool{}
	quantMu.Unlock()
	symsMu.Lock()
	symsMemo = map[int][]string{}
	symsMu.Unlock()
}

// runBoundedParallel: split into prefixes in-process, then fan out to worker subprocesses.
func runBoundedParallel(prog *Program, harness string, N int, workers int, budget time.Duration) *BResult {
	t0 := time.Now()
	var deadline time.Time
	if budget > 0 {
		deadline = t0.Add(budget)
	}
	// phase 1: split at increasing depth until enough prefixes (each round only extends the open prefixes)
	total := &BResult{Harness: harness, N: N, Unsupported: map[string]int{}}
	prefixes := [][]decision{nil}
	depth := 0
	for len(prefixes) > 0 && len(prefixes) < workers*40 && depth < 40 {
		depth += 3
		r, pf := exploreBounded(prog, harness, N, prefixes, depth, deadline)
		total.merge(r)
		if r.Error != "" {
			total.Error = r.Error
			return total
		}
		prefixes = pf
	}
	if os.Getenv("GOVC_DEBUG") != "" {
		fmt.Fprintf(os.Stderr, "phase1: %.1fs, %d prefixes at depth %d, %d paths done\n", time.Since(t0).Seconds(), len(prefixes), depth, total.Paths)
	}
	if len(prefixes) == 0 {
		total.Seconds = time.Since(t0).Seconds()
		return total
	}
	// phase 2: persistent worker subprocesses pull batches of prefixes dynamically
	if workers > len(prefixes) {
		workers = len(prefixes)
	}
	var qmu sync.Mutex
	qcond := sync.NewCond(&qmu)
	queue := append([][]decision{}, prefixes...)
	inflight := 0
	take := func() [][]decision {
		qmu.Lock()
		defer qmu.Unlock()
		for len(queue) == 0 && inflight > 0 {
			qcond.Wait()
		}
		if len(queue) == 0 {
			return nil
		}
		n := len(queue) / (workers * 4)
		if n < 1 {
			n = 1
		}
		if n > 16 {
			n = 16
		}
		b := queue[len(queue)-n:]
		queue = queue[:len(queue)-n]
		inflight++
		return b
	}
	done := func(more [][]decision) {
		qmu.Lock()
		queue = append(queue, more...)
		inflight--
		qmu.Unlock()
		qcond.Broadcast()
	}
	type wres struct {
		r   *BResult
		err error
	}
	ch := make(chan wres, workers)
	self, _ := os.Executable()
	requeue := func(chunk [][]decision) {
		qmu.Lock()
		queue = append(queue, chunk...)
		inflight--
		qmu.Unlock()
		qcond.Broadcast()
	}
	for w := 0; w < workers; w++ {
		go func() {
			acc := &BResult{Unsupported: map[string]int{}}
			var ferr error
			// A worker that dies (killed by the kernel under memory pressure, say) says nothing about the property:
			// its batch goes back on the queue and a fresh worker is started; only repeated deaths end the
			// exploration with an error.
			deaths := 0
		respawn:
			for {
				cmd := exec.Command(self, "bounded-worker")
				cmd.Env = append(os.Environ(), "GOVC_REPO="+repoDir, "GOMAXPROCS=2", "GOMEMLIMIT=2GiB")
				stdin, _ := cmd.StdinPipe()
				stdout, _ := cmd.StdoutPipe()
				cmd.Stderr = os.Stderr
				if err := cmd.Start(); err != nil {
					ch <- wres{acc, err}
					return
				}
				rd := bufio.NewReaderSize(stdout, 1<<20)
				for {
					chunk := take()
					if chunk == nil {
						stdin.Close()
						cmd.Wait()
						break respawn
					}
					in, _ := json.Marshal(map[string]interface{}{"harness": harness, "n": N, "prefixes": encodePrefixes(chunk), "budget_s": budget.Seconds() - time.Since(t0).Seconds(), "max_paths": 400})
					_, werr := stdin.Write(append(in, '\n'))
					var line []byte
					var err error
					if werr == nil {
						line, err = rd.ReadBytes('\n')
					}
					if werr != nil || err != nil {
						stdin.Close()
						cmd.Process.Kill()
						cmd.Wait()
						deaths++
						if deaths > 3 {
							ferr = fmt.Errorf("worker died %d times: %v %v", deaths, werr, err)
							done(nil)
							break respawn
						}
						fmt.Fprintf(os.Stderr, "bounded worker died (%v %v); batch requeued, worker restarted\n", werr, err)
						requeue(chunk)
						continue respawn
					}
					var r wreply
					if err := json.Unmarshal(line, &r); err != nil {
						ferr = fmt.Errorf("worker output: %v: %s", err, clipS(string(line), 300))
						done(nil)
						stdin.Close()
						cmd.Wait()
						break respawn
					}
					acc.merge(&r.BResult)
					done(decodePrefixes(r.More))
				}
			}
			if os.Getenv("GOVC_DEBUG") != "" {
				fmt.Fprintf(os.Stderr, "worker done: %d paths (at %.1fs)\n", acc.Paths, time.Since(t0).Seconds())
			}
			ch <- wres{acc, ferr}
		}()
	}
	for w := 0; w < workers; w++ {
		x := <-ch
		if x.r != nil {
			total.merge(x.r)
		}
		if x.err != nil {
			total.Error = x.err.Error()
		}
	}
	total.Seconds = time.Since(t0).Seconds()
	sort.Slice(total.Violations, func(i, j int) bool { return total.Violations[i].Msg < total.Violations[j].Msg })
	return total
}

type wreply struct {
	BResult
	More [][][2]int `json:"more"`
}

func decodePrefixes(in [][][2]int) [][]decision {
	var prefixes [][]decision
	for _, p := range in {
		var ds []decision
		for _, d := range p {
			ds = append(ds, decision{d[0], d[1]})
		}
		prefixes = append(prefixes, ds)
	}
	return prefixes
}

func encodePrefixes(ps [][]decision) [][][2]int {
	out := make([][][2]int, len(ps))
	for i, p := range ps {
		for _, d := range p {
			out[i] = append(out[i], [2]int{d.choice, d.n})
		}
	}
	return out
}

func cmdBoundedWorker() {
	debug.SetGCPercent(400)
	type req struct {
		Harness  string     `json:"harness"`
		N        int        `json:"n"`
		Prefixes [][][2]int `json:"prefixes"`
		BudgetS  float64    `json:"budget_s"`
		MaxPaths int        `json:"max_paths"`
	}
	rd := bufio.NewReaderSize(os.Stdin, 1<<20)
	var prog *Program
	out := bufio.NewWriter(os.Stdout)
	for {
		line, err := rd.ReadBytes('\n')
		if len(line) == 0 && err != nil {
			return
		}
		var in req
		if jerr := json.Unmarshal(line, &in); jerr != nil {
			fmt.Fprintln(out, `{"error":"bad input"}`)
			out.Flush()
			continue
		}
		if prog == nil {
			p, lerr := LoadProgram(repoDir, []string{pkgPatternOf(in.Harness)})
			if lerr != nil {
				b, _ := json.Marshal(&BResult{Error: "load: " + lerr.Error()})
				fmt.Fprintln(out, string(b))
				out.Flush()
				continue
			}
			prog = p
		}
		prefixes := decodePrefixes(in.Prefixes)
		var deadline time.Time
		if in.BudgetS > 0 {
			deadline = time.Now().Add(time.Duration(in.BudgetS * float64(time.Second)))
		}
		r, more := exploreBounded(prog, in.Harness, in.N, prefixes, 0, deadline, in.MaxPaths)
		b, _ := json.Marshal(&wreply{BResult: *r, More: encodePrefixes(more)})
		fmt.Fprintln(out, string(b))
		out.Flush()
		if err != nil {
			return
		}
	}
}

// pkgPatternOf maps a full function name to the package pattern (relative to the repo root) that contains it.
func pkgPatternOf(full string) string {
	const mod = "github.com/tdewolff/minify/v2"
	i := strings.LastIndex(full, ".")
	if j := strings.Index(full, ".("); j >= 0 {
		i = j
	}
	path := full[:i]
	if path == mod {
		return "."
	}
	if strings.HasPrefix(path, mod+"/") {
		return "./" + strings.TrimPrefix(path, mod+"/")
	}
	return "./..."
}
