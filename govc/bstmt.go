package main

import (
	"fmt"
	"go/ast"
	"go/token"
	"go/types"
	"strings"
)

type ctlKind int

const (
	ctlNone ctlKind = iota
	ctlBreak
	ctlContinue
	ctlReturn
	ctlFallthrough
	ctlGoto
)

type ctl struct {
	k     ctlKind
	label string
}

func (bx *BX) execBlock(fr *bframe, list []ast.Stmt) ctl {
	for i := 0; i < len(list); i++ {
		c := bx.exec(fr, list[i], "")
		if c.k == ctlGoto {
			// jump to a label in this statement list (backward or forward); otherwise propagate outwards
			found := -1
			for j, s := range list {
				if ls, ok := s.(*ast.LabeledStmt); ok && ls.Label.Name == c.label {
					found = j
				}
			}
			if found < 0 {
				return c
			}
			bx.tick()
			i = found - 1
			continue
		}
		if c.k != ctlNone {
			return c
		}
	}
	return ctl{}
}

func (bx *BX) exec(fr *bframe, s ast.Stmt, label string) ctl {
	bx.tick()
	switch x := s.(type) {
	case *ast.EmptyStmt:
	case *ast.ExprStmt:
		bx.eval(fr, x.X)
	case *ast.AssignStmt:
		bx.execAssign(fr, x)
	case *ast.IncDecStmt:
		t := bx.typeOf(fr, x.X)
		v := bx.eval(fr, x.X).(*Term)
		var r *Term
		if x.Tok == token.INC {
			r = bx.wrapInt(Add(v, One), t)
		} else {
			r = bx.wrapInt(Sub(v, One), t)
		}
		bx.assign(fr, x.X, r, false)
	case *ast.DeclStmt:
		gd := x.Decl.(*ast.GenDecl)
		if gd.Tok == token.VAR {
			for _, sp := range gd.Specs {
				vs := sp.(*ast.ValueSpec)
				if len(vs.Values) == 1 && len(vs.Names) > 1 {
					tv := bx.eval(fr, vs.Values[0]).(BTuple)
					for i, n := range vs.Names {
						bx.assign(fr, n, tv[i], true)
					}
					continue
				}
				for i, n := range vs.Names {
					o, _ := fr.info.Defs[n].(*types.Var)
					if o == nil {
						continue
					}
					var v BVal
					if i < len(vs.Values) {
						v = bx.convert(bx.evalTyped(fr, vs.Values[i], o.Type()), bx.typeOf(fr, vs.Values[i]), o.Type())
					} else {
						v = bx.zero(o.Type())
					}
					fr.vars[o] = &BVar{v: bx.copyVal(v)}
				}
			}
		}
	case *ast.BlockStmt:
		return bx.execBlock(fr, x.List)
	case *ast.LabeledStmt:
		return bx.exec(fr, x.Stmt, x.Label.Name)
	case *ast.IfStmt:
		if x.Init != nil {
			bx.exec(fr, x.Init, "")
		}
		if bx.decide(bx.eval(fr, x.Cond).(*Term)) {
			return bx.execBlock(fr, x.Body.List)
		} else if x.Else != nil {
			return bx.exec(fr, x.Else, "")
		}
	case *ast.ForStmt:
		if x.Init != nil {
			bx.exec(fr, x.Init, "")
		}
		for {
			bx.tick()
			if x.Cond != nil && !bx.decide(bx.eval(fr, x.Cond).(*Term)) {
				break
			}
			c := bx.execBlock(fr, x.Body.List)
			if c.k == ctlBreak && (c.label == "" || c.label == label) {
				break
			}
			if c.k == ctlContinue && (c.label == "" || c.label == label) {
				c = ctl{}
			}
			if c.k != ctlNone {
				return c
			}
			if x.Post != nil {
				bx.exec(fr, x.Post, "")
			}
		}
	case *ast.RangeStmt:
		return bx.execRange(fr, x, label)
	case *ast.SwitchStmt:
		return bx.execSwitch(fr, x, label)
	case *ast.TypeSwitchStmt:
		return bx.execTypeSwitch(fr, x, label)
	case *ast.ReturnStmt:
		if len(x.Results) == 1 && len(fr.results) > 1 {
			tv := bx.eval(fr, x.Results[0]).(BTuple)
			for i := range fr.results {
				fr.results[i].v = tv[i]
			}
		} else if len(x.Results) > 0 {
			vals := make([]BVal, len(x.Results))
			for i, r := range x.Results {
				vals[i] = bx.copyVal(bx.convert(bx.evalTyped(fr, r, fr.resObjs[i].Type()), bx.typeOf(fr, r), fr.resObjs[i].Type()))
			}
			for i := range fr.results {
				fr.results[i].v = vals[i]
			}
		}
		return ctl{k: ctlReturn}
	case *ast.BranchStmt:
		l := ""
		if x.Label != nil {
			l = x.Label.Name
		}
		switch x.Tok {
		case token.BREAK:
			return ctl{k: ctlBreak, label: l}
		case token.CONTINUE:
			return ctl{k: ctlContinue, label: l}
		case token.FALLTHROUGH:
			return ctl{k: ctlFallthrough}
		}
		if x.Tok == token.GOTO {
			return ctl{k: ctlGoto, label: l}
		}
		bx.abort("unsupported", "branch statement")
	case *ast.DeferStmt:
		call := x.Call
		// evaluate function value and arguments now
		fv := bx.eval(fr, call.Fun)
		var args []BVal
		for _, a := range call.Args {
			args = append(args, bx.eval(fr, a))
		}
		fr.deferred = append(fr.deferred, func() { bx.apply(fv, args, fr, call) })
	default:
		bx.abort("unsupported", "statement %T", s)
	}
	return ctl{}
}

func (bx *BX) execAssign(fr *bframe, x *ast.AssignStmt) {
	define := x.Tok == token.DEFINE
	if x.Tok != token.ASSIGN && x.Tok != token.DEFINE {
		ops := map[token.Token]token.Token{token.ADD_ASSIGN: token.ADD, token.SUB_ASSIGN: token.SUB, token.MUL_ASSIGN: token.MUL,
			token.QUO_ASSIGN: token.QUO, token.REM_ASSIGN: token.REM, token.AND_ASSIGN: token.AND, token.OR_ASSIGN: token.OR,
			token.XOR_ASSIGN: token.XOR, token.SHL_ASSIGN: token.SHL, token.SHR_ASSIGN: token.SHR, token.AND_NOT_ASSIGN: token.AND_NOT}
		op := ops[x.Tok]
		t := bx.typeOf(fr, x.Lhs[0])
		l := bx.eval(fr, x.Lhs[0])
		r := bx.eval(fr, x.Rhs[0])
		var res BVal
		switch kindOf(t) {
		case KInt:
			res = bx.intOp(op, l.(*Term), r.(*Term), t)
		case KFloat:
			res = App("flt_"+opName(op), "Flt", l.(*Term), r.(*Term))
		case KString:
			a, b := l.(BSlice), r.(BSlice)
			arr := bx.newArr(a.len+b.len, func() BVal { return Zero })
			for i := 0; i < a.len; i++ {
				arr.cells[i] = a.arr.cells[a.off+i]
			}
			for i := 0; i < b.len; i++ {
				arr.cells[a.len+i] = b.arr.cells[b.off+i]
			}
			res = BSlice{arr: arr, len: a.len + b.len, cap: a.len + b.len, str: true}
		default:
			bx.abort("unsupported", "op-assign on %s", typeKey(t))
		}
		bx.assign(fr, x.Lhs[0], res, false)
		return
	}
	if len(x.Lhs) > 1 && len(x.Rhs) == 1 {
		switch r := unparen(x.Rhs[0]).(type) {
		case *ast.IndexExpr:
			if kindOf(bx.typeOf(fr, r.X)) == KMap {
				b := bx.eval(fr, r.X)
				var v BVal = bx.zero(elemTypeOf(bx.typeOf(fr, r.X)))
				ok := false
				if m, isM := b.(*BMap); isM && len(m.m) == 0 {
					bx.eval(fr, r.Index)
				} else if isM {
					k := bx.mapKey(bx.eval(fr, r.Index))
					if mv, has := m.m[k]; has {
						v, ok = mv, true
					}
				}
				bx.assign(fr, x.Lhs[0], v, define)
				bx.assign(fr, x.Lhs[1], BoolK(ok), define)
				return
			}
		case *ast.TypeAssertExpr:
			v := bx.eval(fr, r.X)
			t := bx.typeOf(fr, r.Type)
			iv, isI := v.(BIface)
			if isI && iv.t != nil && types.Identical(iv.t, t) {
				bx.assign(fr, x.Lhs[0], iv.v, define)
				bx.assign(fr, x.Lhs[1], True, define)
			} else {
				bx.assign(fr, x.Lhs[0], bx.zero(t), define)
				bx.assign(fr, x.Lhs[1], False, define)
			}
			return
		}
		tv, ok := bx.eval(fr, x.Rhs[0]).(BTuple)
		if !ok {
			bx.abort("unsupported", "multi-assign from non-tuple")
		}
		for i, l := range x.Lhs {
			bx.assign(fr, l, tv[i], define)
		}
		return
	}
	vals := make([]BVal, len(x.Rhs))
	for i, r := range x.Rhs {
		var lt types.Type
		if !define || true {
			lt = bx.typeOf(fr, x.Lhs[i])
		}
		v := bx.evalTyped(fr, r, lt)
		if lt != nil {
			v = bx.convert(v, bx.typeOf(fr, r), lt)
		}
		vals[i] = bx.copyVal(v)
	}
	for i, l := range x.Lhs {
		bx.assign(fr, l, vals[i], define)
	}
}

func (bx *BX) execRange(fr *bframe, x *ast.RangeStmt, label string) ctl {
	define := x.Tok == token.DEFINE
	xv := bx.eval(fr, x.X)
	var n int
	var get func(i int) BVal
	switch s := xv.(type) {
	case BSlice:
		if s.str {
			// rune iteration: only ASCII-concrete strings supported
			n = s.len
			get = func(i int) BVal { return s.arr.cells[s.off+i] }
			for i := 0; i < n; i++ {
				c := s.arr.cells[s.off+i].(*Term)
				if !bx.decide(Lt(c, IntK(128))) {
					bx.abort("unsupported", "range over non-ASCII string")
				}
			}
		} else {
			n = s.len
			get = func(i int) BVal { return s.arr.cells[s.off+i] }
		}
	case *BArr:
		n = len(s.cells)
		get = func(i int) BVal { return s.cells[i] }
	case *Term:
		n = int(bx.concInt(s, "range bound"))
		get = nil
	case *BMap:
		keys := append([]string{}, s.keys...)
		for _, k := range keys {
			if x.Key != nil {
				bx.assign(fr, x.Key, bx.mapKeyVal(k), define)
			}
			if x.Value != nil {
				bx.assign(fr, x.Value, s.m[k], define)
			}
			c := bx.execBlock(fr, x.Body.List)
			if c.k == ctlBreak && (c.label == "" || c.label == label) {
				break
			}
			if c.k == ctlContinue && (c.label == "" || c.label == label) {
				continue
			}
			if c.k != ctlNone {
				return c
			}
		}
		return ctl{}
	case BNil:
		return ctl{}
	default:
		bx.abort("unsupported", "range over %T", xv)
	}
	for i := 0; i < n; i++ {
		bx.tick()
		if x.Key != nil {
			bx.assign(fr, x.Key, IntK(int64(i)), define)
		}
		if x.Value != nil && get != nil {
			bx.assign(fr, x.Value, get(i), define)
		}
		c := bx.execBlock(fr, x.Body.List)
		if c.k == ctlBreak && (c.label == "" || c.label == label) {
			break
		}
		if c.k == ctlContinue && (c.label == "" || c.label == label) {
			continue
		}
		if c.k != ctlNone {
			return c
		}
	}
	return ctl{}
}

func (bx *BX) mapKeyVal(k string) BVal {
	if strings.HasPrefix(k, "s") {
		return bx.strConst(k[1:])
	}
	var v int64
	fmt.Sscanf(k[1:], "%d", &v)
	return IntK(v)
}

func (bx *BX) execSwitch(fr *bframe, x *ast.SwitchStmt, label string) ctl {
	if x.Init != nil {
		bx.exec(fr, x.Init, "")
	}
	var tag BVal
	if x.Tag != nil {
		tag = bx.eval(fr, x.Tag)
	}
	clauses := x.Body.List
	start := -1
	def := -1
	for i, cs := range clauses {
		cc := cs.(*ast.CaseClause)
		if cc.List == nil {
			def = i
			continue
		}
		matched := false
		for _, e := range cc.List {
			var c *Term
			if tag != nil {
				c = bx.valEq(tag, bx.eval(fr, e))
			} else {
				c = bx.eval(fr, e).(*Term)
			}
			if bx.decide(c) {
				matched = true
				break
			}
		}
		if matched {
			start = i
			break
		}
	}
	if start < 0 {
		start = def
	}
	if start < 0 {
		return ctl{}
	}
	for i := start; i < len(clauses); i++ {
		c := bx.execBlock(fr, clauses[i].(*ast.CaseClause).Body)
		if c.k == ctlFallthrough {
			continue
		}
		if c.k == ctlBreak && (c.label == "" || c.label == label) {
			return ctl{}
		}
		return c
	}
	return ctl{}
}

func (bx *BX) execTypeSwitch(fr *bframe, x *ast.TypeSwitchStmt, label string) ctl {
	if x.Init != nil {
		bx.exec(fr, x.Init, "")
	}
	var subject ast.Expr
	switch a := x.Assign.(type) {
	case *ast.ExprStmt:
		subject = a.X.(*ast.TypeAssertExpr).X
	case *ast.AssignStmt:
		subject = a.Rhs[0].(*ast.TypeAssertExpr).X
	}
	sv := bx.eval(fr, subject)
	var dyn types.Type
	var inner BVal
	if iv, ok := sv.(BIface); ok {
		dyn, inner = iv.t, iv.v
	}
	def := -1
	for i, cs := range x.Body.List {
		cc := cs.(*ast.CaseClause)
		if cc.List == nil {
			def = i
			continue
		}
		for _, e := range cc.List {
			match := false
			if isNilIdent(e) {
				_, match = sv.(BNil)
			} else if dyn != nil {
				t := bx.typeOf(fr, e)
				if kindOf(t) == KIface {
					match = types.Implements(dyn, t.Underlying().(*types.Interface))
				} else {
					match = types.Identical(dyn, t)
				}
			}
			if match {
				if o, ok := fr.info.Implicits[cc].(*types.Var); ok && o != nil {
					if len(cc.List) == 1 && kindOf(bx.typeOf(fr, e)) != KIface {
						fr.vars[o] = &BVar{v: inner}
					} else {
						fr.vars[o] = &BVar{v: sv}
					}
				}
				c := bx.execBlock(fr, cc.Body)
				if c.k == ctlBreak && (c.label == "" || c.label == label) {
					return ctl{}
				}
				return c
			}
		}
	}
	if def >= 0 {
		cc := x.Body.List[def].(*ast.CaseClause)
		if o, ok := fr.info.Implicits[cc].(*types.Var); ok && o != nil {
			fr.vars[o] = &BVar{v: sv}
		}
		c := bx.execBlock(fr, cc.Body)
		if c.k == ctlBreak && (c.label == "" || c.label == label) {
			return ctl{}
		}
		return c
	}
	return ctl{}
}

func isNilIdent(e ast.Expr) bool {
	id, ok := e.(*ast.Ident)
	return ok && id.Name == "nil"
}

// ---- calls

func (bx *BX) evalCall(fr *bframe, x *ast.CallExpr) BVal {
	// conversion
	if tv, ok := fr.info.Types[x.Fun]; ok && tv.IsType() {
		v := bx.eval(fr, x.Args[0])
		return bx.convert(v, bx.typeOf(fr, x.Args[0]), tv.Type)
	}
	if id, ok := unparen(x.Fun).(*ast.Ident); ok {
		if b, ok := fr.info.ObjectOf(id).(*types.Builtin); ok {
			return bx.builtin(fr, b.Name(), x)
		}
	}
	fv := bx.eval(fr, x.Fun)
	var args []BVal
	if len(x.Args) == 1 {
		if tup, ok := bx.typeOf(fr, x.Args[0]).(*types.Tuple); ok && tup.Len() > 1 {
			args = append(args, bx.eval(fr, x.Args[0]).(BTuple)...)
		}
	}
	if args == nil {
		sig, _ := bx.typeOf(fr, x.Fun).Underlying().(*types.Signature)
		for i, a := range x.Args {
			var pt types.Type
			if sig != nil {
				if i < sig.Params().Len()-1 || (i < sig.Params().Len() && !sig.Variadic()) {
					pt = sig.Params().At(i).Type()
				} else if sig.Variadic() && !x.Ellipsis.IsValid() {
					pt = elemTypeOf(sig.Params().At(sig.Params().Len() - 1).Type())
				} else if i < sig.Params().Len() {
					pt = sig.Params().At(i).Type()
				}
			}
			v := bx.evalTyped(fr, a, pt)
			if pt != nil {
				v = bx.convert(v, bx.typeOf(fr, a), pt)
			}
			args = append(args, v)
		}
		if sig != nil && sig.Variadic() && !x.Ellipsis.IsValid() {
			np := sig.Params().Len()
			fixed := np - 1
			extra := args[fixed:]
			bx.arrN++
			sl := BSlice{arr: &BArr{cells: append([]BVal{}, extra...), id: bx.arrN}, len: len(extra), cap: len(extra)}
			if len(extra) == 0 {
				sl = BSlice{isNil: true}
			}
			args = append(args[:fixed:fixed], sl)
		}
	}
	return bx.apply(fv, args, fr, x)
}

func (bx *BX) apply(fv BVal, args []BVal, fr *bframe, x *ast.CallExpr) BVal {
	f, ok := fv.(*BFunc)
	if !ok {
		if _, isNil := fv.(BNil); isNil {
			bx.abort("violation", "call of nil function")
		}
		bx.abort("unsupported", "call of %T", fv)
	}
	if f.builtin != "" {
		return bx.native(f, args, fr, x)
	}
	bx.callDepth++
	if bx.callDepth > 200 {
		bx.abort("unwind", "call depth exceeded (possible unbounded recursion)")
	}
	defer func() { bx.callDepth-- }()
	if f.lit != nil {
		nf := &bframe{vars: map[types.Object]*BVar{}, parent: f.fr, info: f.fr.info, fi: f.fr.fi}
		return bx.runBody(nf, f.lit.Type, f.lit.Body, nil, BNil{}, false, args)
	}
	fi := f.fi
	// spec intrinsics defined in contract files
	switch fi.Obj.Name() {
	case "assume":
		if strings.HasSuffix(bx.prog.Fset.Position(fi.Decl.Pos()).Filename, "_verif.go") {
			if !bx.decide(args[0].(*Term)) {
				bx.abort("excluded", "outside the property's domain")
			}
			return True
		}
	case "concretize":
		if strings.HasSuffix(bx.prog.Fset.Position(fi.Decl.Pos()).Filename, "_verif.go") {
			return IntK(bx.concIntBig(args[0].(*Term), "concretize()"))
		}
	case "prove":
		if strings.HasSuffix(bx.prog.Fset.Position(fi.Decl.Pos()).Filename, "_verif.go") {
			t := bx.norm(args[0].(*Term))
			if t.IsTrue() {
				return True
			}
			if t.IsFalse() {
				return False
			}
			bx.goals = append(bx.goals, t)
			return True
		}
	}
	nf := &bframe{vars: map[types.Object]*BVar{}, info: fi.Pkg.TypesInfo, fi: fi}
	return bx.runBody(nf, fi.Decl.Type, fi.Decl.Body, fi.Decl.Recv, f.recv, f.hasRecv, args)
}

func (bx *BX) runBody(nf *bframe, ft *ast.FuncType, body *ast.BlockStmt, recv *ast.FieldList, recvVal BVal, hasRecv bool, args []BVal) BVal {
	if recv != nil && len(recv.List) > 0 {
		rt := nf.info.TypeOf(recv.List[0].Type)
		rv := recvVal
		// adjust pointer/value receivers
		_, wantPtr := rt.Underlying().(*types.Pointer)
		if p, isPtr := rv.(BPtr); isPtr && !wantPtr {
			rv = bx.copyVal(bx.deref(p))
		} else if !isPtr && wantPtr {
			if _, isNil := rv.(BNil); !isNil {
				rv = BPtr{v: &BVar{v: rv}} // shares the struct object (BStruct is a pointer), so mutations are visible
			}
		} else if !wantPtr {
			rv = bx.copyVal(rv)
		}
		if len(recv.List[0].Names) > 0 {
			if o, ok := nf.info.Defs[recv.List[0].Names[0]].(*types.Var); ok && o != nil {
				nf.vars[o] = &BVar{v: rv}
			}
		}
	}
	i := 0
	for _, f := range ft.Params.List {
		if len(f.Names) == 0 {
			i++
			continue
		}
		for _, n := range f.Names {
			if o, ok := nf.info.Defs[n].(*types.Var); ok && o != nil && i < len(args) {
				nf.vars[o] = &BVar{v: bx.copyVal(args[i])}
			}
			i++
		}
	}
	if ft.Results != nil {
		for _, f := range ft.Results.List {
			t := nf.info.TypeOf(f.Type)
			if len(f.Names) == 0 {
				v := &BVar{v: bx.zero(t)}
				nf.results = append(nf.results, v)
				nf.resObjs = append(nf.resObjs, types.NewVar(token.NoPos, nil, "", t))
				continue
			}
			for _, n := range f.Names {
				v := &BVar{v: bx.zero(t)}
				o, _ := nf.info.Defs[n].(*types.Var)
				if o != nil {
					nf.vars[o] = v
					nf.resObjs = append(nf.resObjs, o)
				} else {
					nf.resObjs = append(nf.resObjs, types.NewVar(token.NoPos, nil, "", t))
				}
				nf.results = append(nf.results, v)
			}
		}
	}
	bx.execBlock(nf, body.List)
	for k := len(nf.deferred) - 1; k >= 0; k-- {
		nf.deferred[k]()
	}
	switch len(nf.results) {
	case 0:
		return nil
	case 1:
		return nf.results[0].v
	}
	out := make(BTuple, len(nf.results))
	for k, r := range nf.results {
		out[k] = r.v
	}
	return out
}

func (bx *BX) builtin(fr *bframe, name string, x *ast.CallExpr) BVal {
	switch name {
	case "len":
		switch v := bx.eval(fr, x.Args[0]).(type) {
		case BSlice:
			return IntK(int64(v.len))
		case *BArr:
			return IntK(int64(len(v.cells)))
		case *BMap:
			return IntK(int64(len(v.m)))
		case BNil:
			return Zero
		case BPtr:
			if a, ok := bx.deref(v).(*BArr); ok {
				return IntK(int64(len(a.cells)))
			}
		}
	case "cap":
		switch v := bx.eval(fr, x.Args[0]).(type) {
		case BSlice:
			return IntK(int64(v.cap))
		case *BArr:
			return IntK(int64(len(v.cells)))
		}
	case "copy":
		dst := bx.eval(fr, x.Args[0]).(BSlice)
		src := bx.eval(fr, x.Args[1]).(BSlice)
		n := dst.len
		if src.len < n {
			n = src.len
		}
		if n > 0 && dst.arr.frozen {
			bx.abort("violation", "copy into package-level / constant data")
		}
		tmp := make([]BVal, n)
		for i := 0; i < n; i++ {
			tmp[i] = src.arr.cells[src.off+i]
		}
		for i := 0; i < n; i++ {
			dst.arr.cells[dst.off+i] = tmp[i]
		}
		return IntK(int64(n))
	case "append":
		base, _ := bx.eval(fr, x.Args[0]).(BSlice)
		t := bx.typeOf(fr, x)
		et := elemTypeOf(t)
		var add []BVal
		if x.Ellipsis.IsValid() {
			s := bx.eval(fr, x.Args[1]).(BSlice)
			for i := 0; i < s.len; i++ {
				add = append(add, s.arr.cells[s.off+i])
			}
		} else {
			for _, a := range x.Args[1:] {
				add = append(add, bx.copyVal(bx.convert(bx.evalTyped(fr, a, et), bx.typeOf(fr, a), et)))
			}
		}
		if len(add) == 0 {
			return base
		}
		if base.len+len(add) <= base.cap && base.arr != nil {
			if base.arr.frozen {
				bx.abort("violation", "append writes into package-level / constant data (cap > len)")
			}
			for i, v := range add {
				base.arr.cells[base.off+base.len+i] = v
			}
			return BSlice{arr: base.arr, off: base.off, len: base.len + len(add), cap: base.cap}
		}
		nl := base.len + len(add)
		nc := nl + nl/2 + 2
		arr := bx.newArr(nc, func() BVal { return bx.zero(et) })
		for i := 0; i < base.len; i++ {
			arr.cells[i] = base.arr.cells[base.off+i]
		}
		for i, v := range add {
			arr.cells[base.len+i] = v
		}
		return BSlice{arr: arr, len: nl, cap: nc}
	case "make":
		t := bx.typeOf(fr, x.Args[0])
		switch kindOf(t) {
		case KSlice:
			n := int(bx.concInt(bx.eval(fr, x.Args[1]).(*Term), "make length"))
			c := n
			if len(x.Args) > 2 {
				c = int(bx.concInt(bx.eval(fr, x.Args[2]).(*Term), "make capacity"))
			}
			if n < 0 || c < n {
				bx.abort("violation", "makeslice: len out of range (%d, %d)", n, c)
			}
			if c > 1<<20 {
				bx.abort("unsupported", "huge allocation %d", c)
			}
			et := elemTypeOf(t)
			return BSlice{arr: bx.newArr(c, func() BVal { return bx.zero(et) }), len: n, cap: c}
		case KMap:
			return &BMap{m: map[string]BVal{}}
		}
	case "new":
		t := bx.typeOf(fr, x.Args[0])
		return BPtr{v: &BVar{v: bx.zero(t)}}
	case "min", "max":
		r := bx.eval(fr, x.Args[0]).(*Term)
		for _, a := range x.Args[1:] {
			b := bx.eval(fr, a).(*Term)
			le := bx.decide(Le(r, b))
			if (name == "min") != le {
				r = b
			}
		}
		return r
	case "panic":
		bx.abort("violation", "explicit panic")
	case "delete":
		if m, ok := bx.eval(fr, x.Args[0]).(*BMap); ok {
			k := bx.mapKey(bx.eval(fr, x.Args[1]))
			delete(m.m, k)
			for i, kk := range m.keys {
				if kk == k {
					m.keys = append(m.keys[:i], m.keys[i+1:]...)
					break
				}
			}
		}
		return nil
	}
	bx.abort("unsupported", "builtin %s", name)
	return nil
}

// native models a few standard-library functions without source in the subset.
var nativeOverride = map[string]bool{
	"sync.(*RWMutex).RLock": true, "sync.(*RWMutex).RUnlock": true, "sync.(*RWMutex).Lock": true, "sync.(*RWMutex).Unlock": true,
	"sync.(*Mutex).Lock": true, "sync.(*Mutex).Unlock": true,
	"errors.New": true, "bytes.Equal": true,
	"encoding/base64.(*Encoding).EncodedLen": true, "encoding/base64.(*Encoding).DecodedLen": true,
	"encoding/base64.(*Encoding).Encode": true, "encoding/base64.(*Encoding).Decode": true,
}

func (bx *BX) native(f *BFunc, args []BVal, fr *bframe, x *ast.CallExpr) BVal {
	switch f.builtin {
	case "sync.(*RWMutex).RLock", "sync.(*RWMutex).RUnlock", "sync.(*RWMutex).Lock", "sync.(*RWMutex).Unlock", "sync.(*Mutex).Lock", "sync.(*Mutex).Unlock":
		return nil
	case "errors.New":
		return BIface{t: types.NewPointer(types.Typ[types.String]), v: BPtr{v: &BVar{v: args[0]}}}
	case "encoding/base64.(*Encoding).DecodedLen":
		n := bx.concInt(args[0].(*Term), "DecodedLen argument")
		return IntK(n / 4 * 3)
	case "encoding/base64.(*Encoding).Encode", "encoding/base64.(*Encoding).Decode":
		bx.abort("excluded", "base64 branch (encoding/base64 is an assumed dependency; outside the bounded claim)")
	case "bytes.Equal":
		a, b := args[0].(BSlice), args[1].(BSlice)
		if a.len != b.len {
			return False
		}
		var cs []*Term
		for i := 0; i < a.len; i++ {
			cs = append(cs, Eq(a.arr.cells[a.off+i].(*Term), b.arr.cells[b.off+i].(*Term)))
		}
		return And(cs...)
	case "encoding/base64.(*Encoding).EncodedLen":
		n := bx.concInt(args[0].(*Term), "EncodedLen argument")
		return IntK((n + 2) / 3 * 4)
	}
	bx.abort("unsupported", "call of %s (no source in subset)", f.builtin)
	return nil
}
