package main

import (
	"fmt"
	"go/ast"
	"go/token"
	"go/types"
	"sort"
	"strings"
)

func (vc *VC) setupResults(st *State) {
	sig := vc.fi.Obj.Type().(*types.Signature)
	res := sig.Results()
	names := resultNames(vc.con, sig)
	// named results declared in syntax
	declared := map[string]*types.Var{}
	if vc.fi.Decl.Type.Results != nil {
		for _, f := range vc.fi.Decl.Type.Results.List {
			for _, n := range f.Names {
				if o, ok := vc.info.Defs[n].(*types.Var); ok && o != nil {
					declared[n.Name] = o
				}
			}
		}
	}
	for i := 0; i < res.Len(); i++ {
		rv := res.At(i)
		var obj *types.Var
		if o, ok := declared[rv.Name()]; ok && rv.Name() != "_" && rv.Name() != "" {
			obj = o
		} else {
			obj = types.NewVar(token.NoPos, vc.fi.Obj.Pkg(), names[i], rv.Type())
		}
		vc.resObjs = append(vc.resObjs, obj)
		st.vars[obj] = zeroVal(rv.Type())
	}
}

func (vc *VC) findAddrTaken() {
	ast.Inspect(vc.fi.Decl.Body, func(n ast.Node) bool {
		switch x := n.(type) {
		case *ast.UnaryExpr:
			if x.Op == token.AND {
				if id, ok := unparen(x.X).(*ast.Ident); ok {
					if o, ok := vc.info.ObjectOf(id).(*types.Var); ok && !o.IsField() && (o.Pkg() == nil || o.Parent() != o.Pkg().Scope()) {
						vc.addrTaken[o] = true
					}
				}
			}
		case *ast.CallExpr:
			// method call with pointer receiver on an addressable local value: x.M() takes &x
			if se, ok := unparen(x.Fun).(*ast.SelectorExpr); ok {
				if sel := vc.info.Selections[se]; sel != nil && sel.Kind() == types.MethodVal {
					fn := sel.Obj().(*types.Func)
					sig := fn.Type().(*types.Signature)
					if _, wantPtr := sig.Recv().Type().Underlying().(*types.Pointer); wantPtr {
						if id, ok := unparen(se.X).(*ast.Ident); ok {
							if o, ok := vc.info.ObjectOf(id).(*types.Var); ok && kindOf(o.Type()) != KPtr && kindOf(o.Type()) != KIface && (o.Pkg() == nil || o.Parent() != o.Pkg().Scope()) {
								vc.addrTaken[o] = true
							}
						}
					}
				}
			}
		case *ast.FuncLit:
			// variables captured by closures: treat assigned captured variables as escaping
			ast.Inspect(x.Body, func(m ast.Node) bool {
				if as, ok := m.(*ast.AssignStmt); ok {
					for _, l := range as.Lhs {
						if id, ok := l.(*ast.Ident); ok {
							if o, ok := vc.info.ObjectOf(id).(*types.Var); ok && o.Pos() < x.Pos() && (o.Pkg() == nil || o.Parent() != o.Pkg().Scope()) {
								vc.addrTaken[o] = true
							}
						}
					}
				}
				return true
			})
		}
		return true
	})
}

func newVC(prog *Program, fi *FuncInfo) *VC {
	full := fi.Full()
	short := full[strings.LastIndex(full, "/")+1:]
	vc := &VC{prog: prog, fi: fi, pkg: fi.Pkg, info: fi.Pkg.TypesInfo, con: prog.Contracts[full], unit: short,
		occ: map[string]int{}, nodeOcc: map[ast.Node]map[string]int{}, abstr: map[string]int{}, heapSorts: map[string]string{},
		rangeFacts: map[int]bool{}, globalsInit: map[string]bool{}, addrTaken: map[types.Object]bool{}, ghost: map[string]Val{},
		assumedContracts: map[string]bool{}, origins: map[int]originRec{}, strKeys: map[int]*Term{}}
	return vc
}

// Run generates all obligations for the function.
func (vc *VC) Run() {
	fd := vc.fi.Decl
	vc.loopOrd, _ = numberLoops(fd.Body)
	if vc.con != nil {
		for ord := range vc.con.Loops {
			found := false
			for _, o := range vc.loopOrd {
				if o == ord {
					found = true
				}
			}
			if !found {
				vc.prog.errf(vc.con.File, vc.con.Line, "%s: contract names loop %d which does not exist", vc.unit, ord)
			}
		}
		vc.sweep = vc.con.Sweep
	} else {
		vc.sweep = true
	}
	vc.tailDup = vc.con != nil && vc.con.TailDup
	vc.findAddrTaken()
	st := &State{pc: True, vars: map[types.Object]Val{}, heaps: map[string]*Term{}}
	vc.entry = &State{pc: True, vars: map[types.Object]Val{}, heaps: map[string]*Term{}}
	// allocation counter
	na := vc.nextArr(st)
	vc.assume(Le(IntK(1<<20), na))
	vc.assume(Le(Zero, vc.heap(st, "$Fuel", SInt)))
	// parameters
	bindParam := func(n *ast.Ident, t types.Type) {
		o, _ := vc.info.Defs[n].(*types.Var)
		if o == nil || n.Name == "_" {
			return
		}
		v := vc.freshVal(t, n.Name)
		vc.paramFacts(v, na)
		vc.entry.vars[o] = v
		if vc.addrTaken[o] {
			vc.declare(o, v, st)
		} else {
			st.vars[o] = v
		}
		vc.params = append(vc.params, o)
	}
	if fd.Recv != nil {
		for _, f := range fd.Recv.List {
			for _, n := range f.Names {
				bindParam(n, vc.info.TypeOf(f.Type))
				if o, _ := vc.info.Defs[n].(*types.Var); o != nil && vc.sweep {
					if rv, ok := vc.entry.vars[o]; ok && kindOf(rv.T) == KPtr {
						vc.assume(Ne(rv.C[0], Zero)) // sweep mode: methods are called on non-nil receivers (A-recv)
					}
				}
			}
		}
	}
	for _, o := range vc.fi.Free {
		// captured variables of a goroutine body: unknown values of their types, like parameters (the body only reads
		// them or writes through them; an assignment to a captured variable itself goes through addrTaken/declare)
		v := vc.freshVal(o.Type(), o.Name())
		vc.paramFacts(v, na)
		vc.entry.vars[o] = v
		if vc.addrTaken[o] {
			vc.declare(o, v, st)
		} else {
			st.vars[o] = v
		}
		vc.params = append(vc.params, o)
	}
	for _, f := range fd.Type.Params.List {
		t := vc.info.TypeOf(f.Type)
		if _, isEll := f.Type.(*ast.Ellipsis); isEll {
			t = types.NewSlice(vc.info.TypeOf(f.Type.(*ast.Ellipsis).Elt))
		}
		for _, n := range f.Names {
			bindParam(n, t)
		}
	}
	vc.setupResults(st)
	for _, ro := range vc.resObjs {
		vc.entry.vars[ro] = st.vars[ro]
	}
	// entry heaps snapshot (heaps touched later are added lazily by vc.heap)
	for k, h := range st.heaps {
		vc.entry.heaps[k] = h
	}
	// requires
	if vc.con != nil {
		env := vc.specEnvAt(st, fd.Body.Lbrace+1)
		env.where = "requires"
		for _, r := range vc.con.Requires {
			vc.assume(vc.specAssumable(env, r.Expr))
		}
	}
	if vc.con != nil {
		env := vc.specEnvAt(st, fd.Body.Lbrace+1)
		for _, pc := range vc.con.Preserves {
			pv := env.eval(pc.Expr)
			if pv.T != nil && kindOf(pv.T) == KPtr {
				vc.preserved = append(vc.preserved, preservedObj{name: pc.Text, elem: elemTypeOf(pv.T), arr: pv.C[0], idx: pv.C[1]})
			} else {
				vc.prog.errf(vc.con.File, pc.Line, "%s: preserves needs a pointer parameter: %s", vc.unit, pc.Text)
			}
		}
	}
	vc.cover(st, nil, "requires-satisfiable")
	f := vc.execBlock(fd.Body.List, st)
	if f.normal != nil && !f.normal.pc.IsFalse() {
		vc.finishReturn(f.normal, nil)
	}
	// vacuity guard: the function can reach a return under all assumptions made along the way
	if len(vc.rets) > 0 && vc.outOfSubset == "" {
		var pcs []*Term
		for _, r := range vc.rets {
			pcs = append(pcs, r.pc)
		}
		any := &State{pc: Or(pcs...), vars: map[types.Object]Val{}, heaps: map[string]*Term{}}
		vc.cover(any, nil, "some-return-reachable")
	}
}

// paramFacts: arrays reachable from parameters were allocated before the call.
func (vc *VC) paramFacts(v Val, nextArr0 *Term) {
	switch kindOf(v.T) {
	case KSlice, KPtr, KMap, KArray:
		vc.assume(Lt(v.C[0], nextArr0))
	case KString:
		vc.assume(Lt(v.C[0], nextArr0))
	case KStruct:
		st := v.T.Underlying().(*types.Struct)
		off := 0
		for i := 0; i < st.NumFields(); i++ {
			n := len(layout(st.Field(i).Type()))
			vc.paramFacts(Val{T: st.Field(i).Type(), C: v.C[off : off+n]}, nextArr0)
			off += n
		}
	}
}

func (vc *VC) checkPosts(st *State, n ast.Node) {
	if vc.inlineMode {
		return
	}
	vc.retCount++
	retTag := fmt.Sprintf("ret%d", vc.retCount)
	if rs, ok := n.(*ast.ReturnStmt); ok {
		retTag = fmt.Sprintf("ret%d:%s", vc.retCount, clip(nodeText(vc.prog.Fset, rs)))
	}
	vc.cover(st, nil, retTag+":reachable").Soft = true
	if vc.con == nil {
		// sweep units get the canary too; it is solved when registries are written and in the thorough tier
		can := &Oblig{Name: vc.oblName("canary", nil, retTag+":false-not-provable"), Kind: "canary", Unit: vc.unit, NLog: len(vc.log), PC: st.pc, Goal: False, vc: vc, Budget: 2}
		vc.obls = append(vc.obls, can)
		return
	}
	// vacuity canary: `false` must NOT be provable at a return of a unit under contract. Covers drop quantified facts (the
	// solvers answer unknown on them), so a contradiction that needs a quantifier instantiation - two facts about the same
	// array row, say - is invisible to them; this obligation keeps every assumption and is expected to stay undecided.
	can := &Oblig{Name: vc.oblName("canary", nil, retTag+":false-not-provable"), Kind: "canary", Unit: vc.unit, NLog: len(vc.log), PC: st.pc, Goal: False, vc: vc, Budget: 2}
	vc.obls = append(vc.obls, can)
	pos := vc.fi.Decl.Body.Rbrace
	env := vc.specEnvAt(st, pos)
	env.where = "ensures"
	// in posts, parameter names denote their values at return; old(x) their entry values
	isRes := map[types.Object]bool{}
	for _, ro := range vc.resObjs {
		isRes[ro] = true
	}
	for o, v := range vc.entry.vars {
		if isRes[o] {
			continue // results have no entry value: inside old() they still denote the returned value
		}
		env.names["$old:"+o.Name()] = v
	}
	for _, e := range vc.con.Ensures {
		t := vc.specBool(env, e.Expr)
		tag := e.Tag
		if tag == "" {
			tag = e.Text
		}
		vc.oblige(st, "post", nil, fmt.Sprintf("%s|%s", clip(tag), retTag), t)
	}
	if !vc.con.NoFrame && !vc.sweep {
		vc.oblige(st, "frame", nil, retTag, vc.frameFormula(st))
	}
}

// frameFormula: every memory cell that differs from the entry state lies in a modifies region (or in an array
// allocated during the call); globals differ only if listed.
func (vc *VC) frameFormula(st *State) *Term {
	if vc.con == nil {
		return True
	}
	env := &SpecEnv{vc: vc, st: vc.entry, old: vc.entry, names: map[string]Val{}, pkg: vc.pkg, where: "modifies"}
	for o, v := range vc.entry.vars {
		env.names[o.Name()] = v
	}
	var regs []region
	for _, m := range vc.con.Modifies {
		rs := vc.regionsOf(env, m.Expr)
		if m.Guard != nil {
			g := vc.specBool(env, m.Guard.Expr)
			for i := range rs {
				rs[i].guard = g
			}
		}
		regs = append(regs, rs...)
	}
	next0 := vc.entryHeap("$nextArr")
	var conj []*Term
	if st.epoch > 0 {
		// a callee without a frame (or an unknown call) ran on this path: nothing can be said about memory
		conj = append(conj, False)
	}
	names := make([]string, 0, len(st.heaps))
	for k := range st.heaps {
		names = append(names, k)
	}
	sort.Strings(names)
	for _, name := range names {
		h := st.heaps[name]
		if strings.HasPrefix(name, "$") {
			continue
		}
		h0 := vc.entryHeap(name)
		if h == h0 {
			continue
		}
		if strings.HasPrefix(name, "G[") {
			allowed := false
			for _, r := range regs {
				if r.global != nil && strings.HasPrefix(name, globalKey(r.global)) {
					allowed = true
				}
			}
			if !allowed {
				conj = append(conj, Eq(h, h0))
			}
			continue
		}
		// memory heap: Array Int (Array Int S)
		a := Var("a!frame", SInt)
		i := Var("i!frame", SInt)
		var allowed []*Term
		for _, r := range regs {
			if r.wholeHeap != nil {
				for _, cp := range layout(r.wholeHeap) {
					if heapNameFor(r.wholeHeap, cp) == name {
						allowed = append(allowed, guardAnd(r.guard, True))
					}
				}
				continue
			}
			if r.wholeMap != nil {
				if strings.HasPrefix(name, "Map["+typeKey(r.wholeMap)+"]") {
					allowed = append(allowed, guardAnd(r.guard, Eq(a, r.mapRef)))
				}
				continue
			}
			if r.elem == nil {
				continue
			}
			l := layout(r.elem)
			for c := r.lo; c < r.hi; c++ {
				if heapNameFor(r.elem, l[c]) == name {
					allowed = append(allowed, guardAnd(r.guard, And(Eq(a, r.arr), Le(r.ilo, i), Lt(i, r.ihi))))
				}
			}
		}
		differ := Ne(Select(Select(h, a), i), Select(Select(h0, a), i))
		conj = append(conj, Forall([]*Term{a, i}, Implies(And(Lt(a, next0), differ), Or(allowed...))))
	}
	return And(conj...)
}

func guardAnd(g, t *Term) *Term {
	if g == nil {
		return t
	}
	return And(g, t)
}
