package main

import "sort"

// Property table: which functions are under contract for which property.

func init() {
	registerProp(&PropSpec{
		ID:       "C08",
		Patterns: []string{"."},
		Units: []string{
			modPath + ".Decimal",
			parsePath + "/strconv.LenInt",
			parsePath + "/strconv.LenUint",
		},
		Bounded: []BoundedUnit{
			{Harness: modPath + ".specHarnessDecimal", For: modPath + ".Decimal", QuickN: 6, ThoroughN: 8,
				What: "grammar, no exponent, exact value for prec<=0, half-ulp for prec>0, never longer, result is a sub-slice, guard byte untouched, no panic (machine-integer semantics incl. wrap-around)"},
			{Harness: modPath + ".specHarnessNumber", For: modPath + ".Number", QuickN: 5, ThoroughN: 7,
				What: "same for Number, including the four print forms and exponent arithmetic"},
			{Harness: modPath + ".specHarnessNumberExp", For: modPath + ".Number", QuickN: 8, ThoroughN: 10,
				What: "the same clauses on the family D+.D+eD (digits moved across the dot, print case 1), explored deeper than the full lexeme space"},
			{Harness: modPath + ".specHarnessNumberNegExp", For: modPath + ".Number", QuickN: 8, ThoroughN: 10,
				What: "the same clauses on the family -D+.D+e-D (signed mantissa, zeros inserted after the dot: offsets relative to the first digit), explored deeper than the full lexeme space"},
		},
		Custom:  []string{"partial"},
		Partial: []string{modPath + ".Number"},
		Notes: []string{
			"Number is under PARTIAL contract (7 loop invariants for the parse, trim, precision and normalisation phases): every obligation is generated, the ones that discharge on the unchanged tree (all overflow obligations of the exponent arithmetic, all index obligations outside the print phase) are registered in registry/C08-partial.json and claimed; the print-phase index obligations are undecided unboundedly and covered by the bounded harness",
			"A-spec: 'canonical decimal digit string + exponent denotes the rational' is a fact about decimal notation (spec functions specParse/specSameValue in /repo/zz_spec_verif.go are the oracle, written from the property statement)",
			"unbounded part: Decimal safety (bounds, overflow, nil), frame (writes only num[0:len)), result is a sub-slice of the argument, 1 <= len(res) <= len(num), termination variants; precondition prec <= 2^31 (values above are covered by the bounded harness with full int64 prec)",
			"Number's unbounded safety proof is not claimed (print phase); Number is covered by the bounded harness only",
		},
	})
	registerProp(&PropSpec{
		ID:       "C18",
		Patterns: []string{"."},
		Units: []string{
			modPath + ".Mediatype",
			parsePath + ".ToLower",
		},
		Bounded: []BoundedUnit{
			{Harness: modPath + ".specHarnessMediatype", For: modPath + ".Mediatype", QuickN: 8, ThoroughN: 10,
				What: "Mediatype(b) == the property sentence transcribed (specMediatype) for every byte string with balanced quotes; sub-slice, not longer, guard byte untouched"},
			{Harness: modPath + ".specHarnessDataURIPayload", For: modPath + ".DataURI", QuickN: 4, ThoroughN: 5,
				What: "DataURI(\"data:,\"+payload), empty registry: RFC 2397 percent-decoding of the result equals that of the input, default media type stays implicit, not longer for validly encoded payloads; parse.DataURI/DecodeURL/EncodeURL executed from the dependency's source"},
			{Harness: modPath + ".specHarnessDataURICharset", For: modPath + ".DataURI", QuickN: 3, ThoroughN: 4,
				What: "data:<t/s>;charset=us-ascii<post>,x : the default charset parameter is dropped and every other byte of the media type survives"},
		},
		Custom:  []string{"partial"},
		Partial: []string{modPath + ".DataURI"},
		Notes: []string{
			"site assertions in the real DataURI (partial contract): the default type text/plain is dropped only as a whole type - exactly text/plain or followed by a parameter (F37 found and fixed: text/plainfoo lost its prefix); the original is kept only when shorter than both encodings; the recursive call gets exactly the parsed media type and payload (the last two shared with C11)",
			"encoding/base64 is an assumed dependency: paths of DataURI that reach base64 Encode/Decode are outside the bounded claim (counted as excluded paths)",
			"DataURI with a registered minifier (m.Bytes succeeding) is not covered by the bounded harnesses (empty registry only)",
			"unterminated quoted strings are outside Mediatype's claimed domain (not a media type)",
		},
	})
	registerProp(&PropSpec{
		ID:       "C15",
		Patterns: []string{"."},
		Units: []string{
			modPath + ".(*M).MinifyMimetype", modPath + ".(*M).Minify", modPath + ".(*M).Match",
			modPath + ".(*M).Add", modPath + ".(*M).AddFunc", modPath + ".(*M).AddCmd",
			modPath + ".(*M).AddRegexp", modPath + ".(*M).AddFuncRegexp", modPath + ".(*M).AddCmdRegexp",
		},
		Notes: []string{
			"abstract view: m.literal as a map from string CONTENT keys (uninterpreted ckey of the bytes) to Minifier values; m.pattern as a sequence; all registry states (any map/slice contents) are covered by the symbolic entry state",
			"A-dep: parse.Mediatype is two uninterpreted functions u_mtType/u_mtParams of the media type string's content key (its splitting rules are not verified here)",
			"A-std: regexp.(*Regexp).Match is an uninterpreted predicate p_matches(regexp identity, content key); sync.RWMutex methods are trace events only",
			"the ghost call trace lists the calls made by each function itself (callee-internal calls are not part of it): 'writes nothing' for ErrNotExist means no call other than RLock/RUnlock is made",
			"(Minifier).Minify is an extern with no frame (may modify anything); its error result is returned unchanged (id(res) == evres)",
		},
	})
	registerProp(&PropSpec{
		ID: "C10",
		Units: []string{
			modPath + ".(*M).Bytes", modPath + ".(*M).String",
			modPath + ".Decimal", modPath + ".Mediatype",
			// no hang in the streaming wrappers: each goroutine body closes its end of the pipe on every path (the
			// other side would block for ever otherwise) and signals the wait group exactly once
			modPath + ".(*M).Reader$go1", modPath + ".(*M).Writer$go1", modPath + ".(*responseWriter).Write$go1",
			modPath + ".(*writer).Close",
		},
		Custom: []string{"sweep"},
		Notes: []string{
			"input handed back on error: (*M).Bytes returns the caller's slice header AND its bytes are unchanged; (*M).String returns the caller's string. The byte clause rests on A-inplace (assumed contract of every Minifier: the reader's buffer is written only when it has spare capacity - tdewolff/parse NewInput), stated in /repo/zz_contracts_verif.go",
			"no panic: all safety obligations (index, slice, nil, division, type assertion, overflow) of every unit under full contract in this framework, plus the zero-annotation SWEEP over all functions of the seven packages and the CLI: only the obligations that discharge on the unchanged tree (registry/C10-sweep.json) are claimed",
			"A-recv: in sweep mode methods are assumed to be called on non-nil pointer receivers",
			"no hang: termination variants are discharged for the loops of Decimal; the termination sweep registers a variant for 76 further loops (ghost token measure, A-fuel); the goroutine bodies of Reader/Writer/ResponseWriter close their pipe end and signal the wait group on every path, Close waits once; bounded harnesses carry a step budget (unwind check). Time proportional to input size and memory growth: not decided",
			"arbitrary byte strings through the dependency's lexers/parsers: not decided (A-dep)",
		},
	})
	registerProp(&PropSpec{
		ID:     "C17",
		Custom: []string{"tables"},
		Notes: []string{
			"T: one ground obligation per table entry, extracted from the constant composite literals of /repo's working tree on every run (a table that stops being a constant literal fails the check), evaluated exhaustively by the generator",
			"A-ref: the reference relations in /verif/reference (Go's html entity table through html.UnescapeString, x/image colornames, html/template URL attributes, typed-in lists from the HTML/CSS/SVG standards) are correct transcriptions",
			"hash tables: Hash.String and ToHash of /repo are executed by govc's interpreter for every Hash constant (ToHash(String(h)) == h)",
			"'each exercised through the public minifier' is not decided by this technique",
		},
	})
	registerProp(&PropSpec{
		ID:       "C02",
		Patterns: []string{"./js"},
		Units: []string{
			modPath + "/js.(*renamer).isReserved",
			modPath + "/js.(*renamer).renameScope",
			"github.com/tdewolff/parse/v2/js.(*Scope).AddUndeclared",
		},
		Custom:  []string{"partial"},
		Partial: []string{modPath + "/js.(*jsMinifier).hoistVars", modPath + "/js.(*jsMinifier).minifyProperty",
			modPath + "/js.(*jsMinifier).minifyFuncDecl", modPath + "/js.(*jsMinifier).minifyMethodDecl", modPath + "/js.(*jsMinifier).minifyArrowFunc", modPath + "/js.(*jsMinifier).minifyStmt",
			modPath + "/js.(*Minifier).Minify", modPath + "/js.newRenamer"},
		Bounded: []BoundedUnit{
			{Harness: modPath + "/js.specHarnessRenamerNames2", For: modPath + "/js.(*renamer).getName", QuickN: 1, ThoroughN: 1, Tier: "quick",
				What: "every index of a one- or two-character name, both alphabets, in-place and reallocating buffers: getName yields an IdentifierName and getIndex(getName(i)) == i (hence injective)"},
			{Harness: modPath + "/js.specHarnessRenamerNames", For: modPath + "/js.(*renamer).getName", QuickN: 1, ThoroughN: 1, Tier: "thorough",
				What: "the same for every index below 224694 (all names of up to three characters)"},
		},
		Notes: []string{
			"per-scope slice of capture-freedom: (1) isReserved reports every reserved word of length > 1 (and nothing else when there are no undeclared variables); (2) renameScope makes no call at all (hence writes nothing through getName/isReserved) when renaming is off; (3) generated names are IdentifierNames and distinct for distinct indices below the bound",
			"A-parser: *Var pointers in Declared/Undeclared are non-nil; Undeclared lists every variable used in the scope or below that is declared outside (the invariant the whole property rests on) - not verified",
			"hoisting: a var moved into the hoisting target is registered as undeclared in EVERY block scope on the parent chain from the target's scope up to (excluding) the function scope - per-iteration contract of the walk in the real hoistVars (one AddUndeclared(ref) on the current scope, then its parent) plus the exit assertion (nil or function scope reached); AddUndeclared itself is verified against the dependency's source (v ends up listed; only s.Undeclared and its spare capacity change, so the Parent/Func links are kept)",
			"isReserved compares the candidate name with the variable at the END of each free variable's link chain (site assertion: v.Link == nil at the comparison); an object-literal shorthand {x} stays a shorthand only if the key is compared with the name that will be printed, (*Var).Name() (trace assertion in minifyProperty)",
			"not decided: sort.Sort permutation, scopes renamed parents-first, the rest of hoistVars (which declarations move, reordering), shorthand re-expansion",
			"A-key: content keys (uninterpreted ckey) identify byte-string contents; bytes.Equal and map lookups by string(name) are expressed through them",
		},
	})
	registerProp(&PropSpec{
		ID:       "C07",
		Units: []string{
			modPath + "/json.(*Minifier).Minify",
		},
		Bounded: []BoundedUnit{
			{Harness: modPath + ".specHarnessJSONNumber", For: modPath + ".Number", QuickN: 6, ThoroughN: 8,
				What: "every RFC 8259 number lexeme: Number(x,0) plus the leading-zero repair is a JSON number of exactly the same value"},
			{Harness: modPath + ".specHarnessJSONNumberNegExp", For: modPath + ".Number", QuickN: 8, ThoroughN: 10,
				What: "the same clauses on the family -D+.D+e-D (signed mantissa, zeros inserted after the dot), explored deeper than the full lexeme space"},
		},
		Notes: []string{
			"per-iteration (two-state) contract of the token loop of the real json.(*Minifier).Minify over an abstract token stream: skipComma bookkeeping at every back edge, ',' written exactly when the previous token did not open a container and the parser state is ObjectKey/Array, ':' for ObjectValue, no separator otherwise, the token text is the last write of the iteration, KeepNumbers => Number is not called, a leading '.' after Number is preceded by the write of \"0\" or \"-0\"; end of input: result nil only after a successful zero-length probe write that is the last write",
			"A-dep: the dependency's parser (State/Next/Err) is an abstract event stream delivering RFC 8259 grammar events; that re-inserting ','/':' from parser state reproduces the same nesting for EVERY token sequence is an induction over the dependency's grammar and is not decided; duplicate-key order and 'never longer than the input' are not decided",
			"minify.Number is used through its contract (C08: shape clause proved only for the non-print returns, otherwise bounded-verified)",
		},
	})
	registerProp(&PropSpec{
		ID:     "C14",
		Custom: []string{"partial"},
		Partial: []string{
			modPath + "/json.(*Minifier).Minify", modPath + "/xml.(*Minifier).Minify", modPath + "/svg.(*Minifier).Minify",
			modPath + "/css.(*Minifier).Minify", modPath + "/html.(*Minifier).Minify", modPath + "/js.(*Minifier).Minify",
			modPath + ".UpdateErrorPosition", modPath + ".(*cmdMinifier).Minify",
		},
		Units: []string{modPath + ".(*writer).Close", modPath + ".(*M).Reader$go1", modPath + ".(*M).Writer$go1", modPath + ".(*responseWriter).Write$go1"},
		Notes: []string{
			"the stream wrappers hand the failure on: the goroutine bodies call the minifier with the CALLER's writer/reader themselves (argument identities in the trace - no buffering layer in between whose deferred flush could lose an error), store or forward its error before releasing the other side, and (*writer).Close returns it (contracts shared with C12)",
			"return-site (postcondition) obligations over the ghost call trace of each package's real Minify: a nil result is returned only after a zero-length probe write w.Write(nil) that returned a nil error and after which no further write happens, and (all but js) only when the lexer/parser error equals io.EOF; errors of embedded minifiers are returned through UpdateErrorPosition, which never turns a non-nil error into nil",
			"the six Minify functions are under PARTIAL contract: the registered obligations (the C14 posts plus every safety obligation that discharges) are claimed; the rest is undecided",
			"A-dep: Err() of the dependency's lexers/parsers is non-nil after an error token; with A 'a failing writer keeps failing' the probe clause yields: writer failure at any write => non-nil result",
			"not decided: reader failures (parse.NewInput / io.ReadAll semantics), the pipe/goroutine wrappers in minify.go (Reader, Writer, Close: go statements are outside the subset), 'never blocks', 'Close always returns'",
		},
	})
	registerProp(&PropSpec{
		ID:       "C16",
		Custom:   []string{"partial"},
		Partial: []string{
			modPath + "/js.toNullishExpr", modPath + "/js.minifyString", modPath + "/js.(*jsMinifier).optimizeCondExpr",
			modPath + "/js.(*jsMinifier).minifyStmt", modPath + "/js.(*jsMinifier).minifyExpr",
			modPath + "/js.(*renamer).renameScope", modPath + "/json.(*Minifier).Minify", modPath + "/html.(*Minifier).Minify",
			modPath + "/cmd/minify.run", modPath + "/js.(*jsMinifier).minifyProperty", modPath + "/xml.(*Minifier).Minify",
		},
		Notes: []string{
			"version gates as call-site preconditions / site assertions on the real js code: p_es(v) is DEFINED as (*Minifier).minVersion(v) of the running call; the rewrites that INTRODUCE newer syntax - ?? and ?. (toNullishExpr, ES2020), back-tick quoting (minifyString, ES2015), binding-less catch (ES2019), ** from Math.pow (ES2016) - carry `requires/assert p_es(v)` and every call site / program point must establish it from the branch conditions dominating it. Found and fixed F6 (Math.pow => ** had no version guard)",
			"Keep*: KeepVarNames/with => renameScope makes no call when renaming is off (C02); KeepNumbers => Number is not called (C07 step contract); html KeepQuotes: the quote handed to EscapeAttrVal is the current attribute's own original quote or none (site assertion)",
			"CLI plumbing (run(), partial): the asp/php/template flavours of the HTML minifier are the flag-populated HTML minifier with only the delimiters changed - every Keep* field equal at the point where the delimiters are set",
			"partial contracts: only the registered obligations (the version-gate obligations plus the safety obligations that discharge) are claimed",
			"not decided: 'and nothing else', html/css/svg/xml Keep* options, semantic guarantees under every option combination, the CLI flag mapping, tokens already present in the input",
		},
	})
	registerProp(&PropSpec{
		ID:     "C19",
		Custom: []string{"partial"},
		Partial: []string{modPath + "/cmd/minify.minify", modPath + "/cmd/minify.run", modPath + "/cmd/minify.createTasks$fn1", modPath + "/cmd/minify.createTasks", modPath + "/cmd/minify.fileFilter"},
		Units:  []string{modPath + ".(*M).MinifyMimetype", modPath + ".(*M).Minify", modPath + "/cmd/minify.compilePattern", modPath + "/cmd/minify.openOutputFile", modPath + "/cmd/minify.SameFile"},
		Notes: []string{
			"openOutputFile under full contract: the destination is opened write-only, created and TRUNCATED (flags of the single os.OpenFile event), stdout for the empty name; run() (partial; channel operations end the verified path): whether an input has a trailing separator is decided on the name as given, not on the cleaned name",
			"compilePattern (the --include/--exclude/--match filters) under full contract over the ghost trace: a ~pattern is compiled untouched; a glob is quoted, each rewrite consumes the previous result, the `**` rewrite (to `.*`) happens before the `*` rewrite, `?` is rewritten, and the returned regexp/error are those of regexp.Compile on the end of that pipeline",
			"site assertions over the ghost call trace of the real cmd/minify minify(t): [C19-fallback-original] when the library fails, the buffer copied to the destination is created over exactly the bytes that io.ReadAll returned (content-key equality across the failed m.Minify call, which rests on A-frame: a minifier writes bytes only into its writer's buffer, its reader's exposed buffer, or fresh memory - carried through the proved contracts of (*M).Minify/MinifyMimetype); [C20-backup-removed-only-after-success] os.Remove of the backup happens only on the path where io.Copy returned nil and only for the name dst+\".bak\"",
			"try.Do(f) is modelled as one execution of f's body (A-try); the operating system and std library calls are trace events (A-os)",
			"not decided: task creation (createTasks: closures over fs.WalkDir), destination computation, filters, the worker pool, exit status plumbing, watch mode, attribute preservation, bundles (concatFileReader), 'modifies no other file', and the leftover-backup clause (design finding F8: hard-linked src/dst leaves <src>.bak because cleanup compares names while the rename is decided by SameFile - not derived by this machinery)",
		},
	})
	registerProp(&PropSpec{
		ID:     "C20",
		Custom: []string{"partial"},
		Partial: []string{modPath + "/cmd/minify.minify"},
		Units:  []string{modPath + "/cmd/minify.SameFile"},
		Notes: []string{
			"SameFile (the test that decides whether the original must be renamed to .bak before the destination is truncated) under full contract: both names are resolved through symbolic links (os.Stat events, not os.Lstat) and compared by os.SameFile on exactly those two results; an error of either stat gives (false, err)",
			"[C20-backup-removed-after-output-complete]: when the backup is removed, the trace ends with io.Copy(fw, ...) returning a nil error, fr.Close(), fw.Close() (optionally the statistics line) - loop 3 carries the invariant that the trace and err are those at loop entry",
			"ordering obligations on the real minify(t) as site assertions over the ghost trace: the destination is opened (truncated) immediately after all inputs have been opened; the backup <dst>.bak is removed only after a successful copy (io.Copy error nil); on a failed copy the backup is restored by rename",
			"A-os: rename is atomic; a crash happens between library calls. The full crash invariant (for every instant, original or backup or complete output exists) needs a ghost file system relating path strings and contents and is NOT established; real system-call granularity and multi-task runs are not decided",
		},
	})
	registerProp(&PropSpec{
		ID:     "C13",
		Custom: []string{"partial", "fscan"},
		Units: []string{modPath + ".(*M).MinifyMimetype", modPath + ".(*M).Match", modPath + ".(*M).Minify", modPath + ".(*M).Bytes", modPath + ".(*M).String"},
		Partial: []string{
			modPath + "/json.(*Minifier).Minify", modPath + "/xml.(*Minifier).Minify", modPath + "/svg.(*Minifier).Minify",
			modPath + "/css.(*Minifier).Minify", modPath + "/html.(*Minifier).Minify", modPath + "/js.(*Minifier).Minify",
			modPath + ".(*cmdMinifier).Minify",
		},
		Notes: []string{
			"(*M).Bytes / String never write the caller's bytes (the reader handed to the minifier exposes no spare capacity; full contracts shared with C10), so calls on the same or adjacent slices share no written location",
			"a registered command is shared by all calls: (*cmdMinifier).Minify rewrites the $in/$out placeholders in its own copy of the argument list, never in the registered exec.Cmd's array (F42 found and fixed); F scan extended: no function takes the address of a package-level variable or calls a pointer-receiver method on one (allow-list: regexp, sync, log types)",
			"sequential premise of the standard argument 'no shared location is written after registration => every interleaving equals the sequential run': (1) frame.store obligations (always claimed): no store in any of the six (*Minifier).Minify methods targets the option struct passed in by the user (css/svg/html prove it through their local copy; F7 in html found and fixed); (2) F obligations decided by the generator's may-write analysis: no function of the seven packages stores to a package-level variable outside init(), none iterates over a map on an output path (allow-list: newRenamer builds a set); (3) lock discipline from the registry contracts (C15): MinifyMimetype/Match take the read lock only, released on every exit",
			"data-race freedom over all interleavings, races inside dependencies, GOMAXPROCS effects and cross-process determinism are NOT decided (no concurrency logic in this technique)",
			"A-globals: package-level []byte(\"...\") append bases have cap == len, so append never writes through them",
		},
	})
	registerProp(&PropSpec{
		ID:       "C12",
		Patterns: []string{"."},
		Units: []string{
			modPath + ".(*writer).Close", modPath + ".(*responseWriter).WriteHeader", modPath + ".(*M).ResponseWriter",
			modPath + ".(*M).Reader", modPath + ".(*M).Writer", modPath + ".(*M).Bytes", modPath + ".(*M).String",
			modPath + ".(*M).Reader$go1", modPath + ".(*M).Writer$go1", modPath + ".(*responseWriter).Write$go1",
			modPath + ".(*M).Middleware$fn1", modPath + ".(*M).MiddlewareWithError$fn1",
		},
		Custom:  []string{"partial"},
		Partial: []string{modPath + ".(*responseWriter).Write"},
		Notes: []string{
			"sequential contracts on the wrappers of minify.go: writer.Close is idempotent, closes the pipe and THEN waits for the minifier goroutine (trace [Close, Wait]) and returns the minifier's error if set, else the pipe's; responseWriter.WriteHeader deletes Content-Length before writing the status; ResponseWriter derives the fallback media type from the request path extension; Reader/Writer create the pipe and start exactly one goroutine (Writer after wg.Add); responseWriter.Write reads Content-Type before matching and passes writes through only when no minifier matches; Bytes/String hand the whole input to one m.Minify call (C10 contracts)",
			"the three goroutine bodies (units <func>$go1: the literal's own Type/Body nodes, captured variables bound like parameters) under sequential contract: the minifier runs exactly once on the pipe with the captured arguments; its error is handed over (pw.CloseWithError(err) in Reader, z.err in Writer/responseWriter.Write) BEFORE the releasing event (pipe close, wg.Done - the last event of the body), so that with (*writer).Close's proved [close-then-wait] and [error] clauses 'Close returns the minifier's error' follows under the (assumed, not verified) happens-before of sync.WaitGroup",
			"the handlers returned by Middleware / MiddlewareWithError (units <func>$fn1): the wrapped handler is served with the minifying writer created for this request, which is then closed; MiddlewareWithError passes a non-nil Close error to errorFunc",
			"in the spawning function a go statement is abstracted as a spawn event plus havoc of all heaps; the happens-before of wg.Wait and every scheduling/chunking/pacing-quantified clause ('same bytes for any chunking', 'delivered by the time Close returns') are NOT decided by this technique",
			"chunk independence of the six Minify functions would follow from 'the reader is used exactly once as the argument of parse.NewInput' plus io.ReadAll's contract; that lemma over assumed dependency contracts is not machine-checked here",
		},
	})
	registerProp(&PropSpec{
		ID:     "C11",
		Custom: []string{"partial", "fscan"},
		Partial: []string{modPath + "/html.(*Minifier).Minify", modPath + "/svg.(*Minifier).Minify", modPath + ".UpdateErrorPosition", modPath + ".DataURI", modPath + "/css.(*cssMinifier).minifyTokens"},
		Units:  []string{modPath + ".(*M).MinifyMimetype"},
		Bounded: []BoundedUnit{
			{Harness: modPath + ".specHarnessDataURIPayload", For: modPath + ".DataURI", QuickN: 3, ThoroughN: 4, What: "data: URIs with no registered minifier pass their payload through unchanged (up to re-encoding); see C18"},
		},
		Notes: []string{
			"call-site obligations (site assertions over the ghost call trace) at the embedded-resource call sites of the real html.Minify (svg, math, raw-text elements, style and on* attributes) and svg.Minify (style text, style CDATA, style attribute): the call carries the prescribed media type (header identity of the package-level media type bytes; for raw text with a type attribute: parse.Mediatype's results), params (inline=1 for attributes and inline SVG; nil for math and defaulted raw text), writer and a reader over exactly the token's bytes; ErrNotExist => the original bytes are written next; any other error => returned through UpdateErrorPosition (which keeps it non-nil), the call's error being the one returned",
			"DataURI: the recursive m.Bytes call is made on exactly the media type and payload slices that parse.DataURI returned (site assertion)",
			"dispatch to the registered minifier and 'exactly what it produces' is the trace contract of (*M).MinifyMimetype (C15): the sub-minifier writes into the same writer / the attribute buffer that is then written whole",
			"A-globals-immutable: package-level variables are not reassigned after init (F obligations of the fscan checker for /repo's packages, assumed for dependencies); A-buffers: writer/reader buffers are heap arrays, never package-level data",
			"not decided: re-escaping for the host syntax (EscapeAttrVal, A-dep), the media-type selection from the type attribute beyond passing parse.Mediatype's results, CSS url() data URIs, position arithmetic inside UpdateErrorPosition",
		},
	})
	registerProp(&PropSpec{
		ID:       "C06",
		Patterns: []string{"./xml"},
		Units: []string{
			modPath + "/xml.(*TokenBuffer).read", modPath + "/xml.NewTokenBuffer", modPath + "/xml.(*TokenBuffer).Peek", modPath + "/xml.(*TokenBuffer).Shift",
		},
		Custom:  []string{"partial", "tables"},
		Partial: []string{modPath + "/xml.(*Minifier).Minify"},
		Notes: []string{
			"xml.TokenBuffer under full contract as a data structure with an abstract view (the not-yet-shifted tokens in lexer order): Peek(i) consumes nothing (every buffered token is preserved, in place or across reallocation), performs exactly one read() per newly buffered token, returns the i-th token of the view or the final error token, never indexes out of range; Shift hands out the first token of the view; all loops with invariants and variants",
			"per-iteration (two-state) contract of the whitespace state machine of the real xml.(*Minifier).Minify: KeepWhitespace => omitSpace is cleared by start and end tags and not set again by attribute/close/PI/DOCTYPE tokens; a CDATA section sets omitSpace only when it ends in whitespace (words are not joined); a text token's written bytes are the entity-replaced text minus at most one leading byte (only if omitSpace was set) and at most one trailing byte; with KeepWhitespace the trailing space before a tag is kept (site assertion); end of input obligations of C14",
			"the contract pins the design of the state machine (where omitSpace is reset); an equivalent redesign would need new contracts",
			"A-dep: the xml lexer is an abstract token stream; ReplaceMultipleWhitespaceAndEntities keeps a non-empty text non-empty; EscapeCDATAVal/EscapeAttrVal/ReplaceEntities are not verified",
			"not decided: infoset equality as a whole, entity decoding, attribute-value normalisation, the look-ahead rule for dropping a trailing space in full, empty-element collapsing, CDATA-to-text conversion; several pre-existing deviations reported by the seeding agents (e.g. `<a><![CDATA[x]]> y</a>` -> `<a>xy</a>`) lie in these undecided parts",
		},
	})
	registerProp(&PropSpec{
		ID:       "C04",
		Patterns: []string{"./css"},
		Units: []string{
			modPath + "/css.minifyColor", modPath + "/css.(Token).IsZero", modPath + "/css.minifyLengthPercentage",
			modPath + "/css.minifyNumberPercentage", modPath + "/css.(*cssMinifier).minifyDimension",
			modPath + ".Decimal", // KeepCSS2 numbers go through Decimal
		},
		Custom:  []string{"partial", "tables"},
		Partial: []string{modPath + "/css.(*cssMinifier).minifyProperty", modPath + "/css.(*cssMinifier).minifyGrammar", modPath + "/css.(*cssMinifier).minifySelectors", modPath + "/css.(*cssMinifier).minifyTokens"},
		Notes: []string{
			"value-rewriting kernels of the real css package under full contract (all inputs, byte-level postconditions whose meaning is stated next to them): minifyColor on hash colours (alpha pair dropped only when both nibbles are f, '#0000' only when both are 0, 3/4-digit form only when both nibbles of every channel are equal, otherwise the lower-cased input; name lookups are the C17 table lemmas); minifyNumberPercentage (d0% -> .d, .0d -> d%, .00x -> .x%, anything else unchanged); minifyLengthPercentage (only a value starting with 0 loses its unit and becomes that 0); Token.IsZero; minifyDimension (split at the last non-letter, unit lower-cased, exactly the number bytes handed once to Number - Decimal under KeepCSS2 - with the configured precision, result = that number followed by the unit, proved through the overlapping append)",
			"site assertions in the real minifyProperty (partial contract): the flex rewrites that inspect only the first byte of <flex-grow>/<flex-shrink> are reached only when those numbers are single characters",
			"further site assertions: a zero box-shadow length is dropped only from the end of the shadow's lengths (blur before a non-zero spread stays); a custom property's value is written trimmed only - nothing but the parser's accessor runs between the colon and the value (no in-place whitespace rewriting of strings/urls inside it)",
			"C08 decides what Number/Decimal may do to the number bytes; C17 decides the colour tables entry by entry",
			"not decided: the grammar walk (minifyGrammar/minifySelectors), every other shorthand rewrite of minifyProperty (margin/padding/border/background/font/box-shadow/..., including the background-position deviation quoted in the property), rgb()/hsl() conversion (floating point), unicode-range, url() and string handling, custom properties; 'already minified' is a premise of the kernels that their callers are assumed to establish",
			"observation (not a listed finding): minifyDimension returns the unit as a slice of the input that the final append may overwrite when the number shrinks by fewer bytes than the unit is long (e.g. the unit of -0km reads back as mm); the only caller uses it for the optional-zero-unit lookup, where this can only drop the unit of a zero with an invalid two-letter unit ending in m",
		},
	})
	registerProp(&PropSpec{
		ID:       "C05",
		Patterns: []string{"./svg"},
		Units: []string{
			modPath + "/svg.(*TokenBuffer).read", modPath + "/svg.NewTokenBuffer", modPath + "/svg.(*TokenBuffer).Peek", modPath + "/svg.(*TokenBuffer).Shift",
			modPath + "/svg.(*PathDataState).copyNumber", modPath + "/svg.(*PathDataState).copyFlag",
		},
		Custom: []string{"partial", "tables"},
		Partial: []string{
			modPath + "/svg.(*PathData).copyInstruction", modPath + "/svg.(*PathData).shortenCurPosInstruction",
			modPath + "/svg.(*PathData).shortenAltPosInstruction", modPath + "/svg.(*Minifier).Minify",
			modPath + "/svg.skipTag", modPath + "/svg.(*Minifier).shortenDimension", modPath + "/svg.printTag",
		},
		Notes: []string{
			"separator elision under full contract (copyNumber / copyFlag, all inputs): the buffer only grows; a number is written without a separator only when re-lexing cannot fuse it with what precedes (previous token is a command or flag, or the number starts with '-', or it starts with '.' and the previous number already has a '.' or an exponent); a lone 0 after a fraction becomes .0; the trailing 00 -> e2 rewrite happens only for integers (F15 found and fixed: 1e100 became 1e1e2); prevDigitIsInt is exactly 'the written number has no dot or exponent'; flags are one character, preceded by a separator unless a flag precedes",
			"path cursor state machine (site assertions in the real copyInstruction, partial contract): when the command about to be written is not a cubic (quadratic) curve, the remembered control point p.cx/p.cy (p.qx/p.qy) is NaN, so a following smooth command reflects only an EMITTED curve of its family; rewrites never change a command's relativity; the state taken over is that of the chosen alternative; after closepath the state demands a command letter (F16 found and fixed: M2 2h3zh4 became M2 2h3z 4); in shortenCur/AltPosInstruction the command letter is elided only after the same letter or as implicit lineto after moveto, never after closepath",
			"further path-state assertions: closepath forgets the remembered control points (F27 found and fixed); a zero-length line is dropped only when no curve state precedes it (F26 found and fixed); open known finding F28: a degenerate curve is rewritten to a line also when its last control point is the START point, which changes a following smooth curve (pinned by the test suite)",
			"skipTag (dropping metadata / foreign elements / empty defs): per-iteration contract - one token per step, a start tag opens one level, an end tag or a void close closes one, other tokens keep the depth, depth never negative; shortenDimension: the unit is dropped only for the number 0 or for px (trace of the single Number call, lengths)",
			"floats are an uninterpreted sort with NaN-ness as the only interpreted fact (math.NaN/IsNaN): coordinate arithmetic, the absolute/relative alternative's VALUE, tolerance and degenerate-curve tests are NOT decided",
			"svg.TokenBuffer under full contract (same data-structure contract as xml: Peek consumes nothing, Shift hands out the first token of the view)",
			"svg.(*Minifier).Minify (partial): the option struct is never written (frame.store); an attribute is dropped for its namespace prefix only if the prefix is not xml:, not xlink: and it is not the xmlns:xlink declaration (F17 found and fixed: xlink:href was dropped); embedded style dispatch obligations of C11; end-of-input obligations of C14",
			"not decided: element tree preservation as a whole, skipTag/printTag, shortenDimension, viewBox, colour and style values, default-attribute removal on the root, geometry equality of paths (needs a float semantics and an induction over the whole path), number values (C08)",
			"A-call: copyNumber's premises (coord is a minified number, coord does not alias the buffer) are established by its callers from Number's output; those call-site obligations are generated but not discharged (interior pointers &p.curBuffer are outside the memory model) and are not claimed",
		},
	})
	registerProp(&PropSpec{
		ID:       "C03",
		Patterns: []string{"./html"},
		Units: []string{
			modPath + "/html.(*TokenBuffer).read", modPath + "/html.NewTokenBuffer", modPath + "/html.(*TokenBuffer).Peek",
			modPath + "/html.(*TokenBuffer).Shift", modPath + "/html.(*TokenBuffer).Attributes",
		},
		Custom:  []string{"partial", "tables"},
		Partial: []string{modPath + "/html.(*Minifier).Minify"},
		Notes: []string{
			"the table lemmas of C17 are part of this check as well (attribute and element traits decide which attribute values are written and which tags are dropped)",
			"html.TokenBuffer (the look-ahead buffer every omission decision reads) under full contract: Peek(i) consumes nothing, keeps every buffered token across reallocation, performs one lexer read per newly buffered token and returns the i-th token of the view or the final error token; Shift hands out the first token; Attributes(hashes...) returns, per requested hash, the matching attribute token of the current start tag or nil, scanning only that tag's attribute tokens - all loops with invariants and variants, every index in range",
			"site assertions in the real html.(*Minifier).Minify written from the HTML standard: a </p> is omitted only when the next token that is not inter-element whitespace is the end of input, an end tag of a parent that does not keep p open, or the start tag of an element that closes p - never before a comment, inline svg/math, text or template token (the look-ahead loops carry the invariant that no omission was decided yet); </optgroup> only at the end or when no option follows; the value attribute of input is dropped only when it equals the default of the input's type (\"on\" for radio, empty otherwise); text is collapsed/entity-rewritten only outside pre and raw-text elements; a leading space is cut only when omitSpace allows it; KeepQuotes passes the attribute's own quote (C16); embedded resource dispatch (C11); end-of-input obligations (C14); the option struct is not written (C13)",
			"the trait tables behind these decisions (omitPTag/keepPTag, blockTag/objectTag, boolean and URL attributes, entity maps, attribute defaults) are the C17 table lemmas",
			"not decided: tree equality as a whole (needs an HTML5 tree-construction model), the unconditional omission of li/td/tr/... end tags in contexts with script-supporting siblings, html/head/body tag removal, the right-trim look-ahead, attribute quoting/escaping (EscapeAttrVal, dependency), entity rewriting, '</script' inside script text, Keep* combinations",
		},
	})
	registerProp(&PropSpec{
		ID:       "C01",
		Patterns: []string{"./js"},
		Custom:   []string{"partial", "jstables"},
		Units:    []string{modPath + "/js.isCanonicalIntegerString"},
		Partial: []string{modPath + "/js.isBooleanExpr", modPath + "/js.endsInIf", modPath + "/js.isFalsy", modPath + "/js.mergeBinaryExpr",
			modPath + "/js.(*jsMinifier).minifyParams", modPath + "/js.(*jsMinifier).minifyExpr",
			modPath + "/js.isUndefined", modPath + "/js.isUndefinedOrNull", modPath + "/js.toNullishExpr",
			modPath + "/js.hasSideEffects", modPath + "/js.mergeVarDeclExprStmt", modPath + "/js.(*jsMinifier).optimizeCondExpr",
			modPath + "/js.(*jsMinifier).hoistVars", modPath + "/js.(*jsMinifier).minifyProperty",
			modPath + "/js.optimizeStmtList", modPath + "/js.hexadecimalNumber", modPath + "/js.binaryNumber", modPath + "/js.octalNumber"},
		Notes: []string{
			"operator table lemmas (jstables, exhaustive ground evaluation): every entry of binaryOpPrecMap / binaryLeftPrecMap / binaryRightPrecMap / unaryOpPrecMap / unaryPrecMap of the real js/util.go equals the level the ECMAScript expression grammar gives that operator (reference/js-operators.json), no operator of the grammar is missing (a missing entry reads as the lowest level - F18 found and fixed: the logical assignment operators were missing and a&&=(b,c) lost its parentheses), nothing extra, and the dependency's OpPrec levels are ordered by binding strength",
			"isBooleanExpr is SOUND (answers true only for expressions that evaluate to a Boolean) and endsInIf is COMPLETE (answers true for every statement whose printed form ends with an else-less if) - postconditions on the real recursive functions, proved branch by branch from ECMAScript facts that are assumed at the site where the code inspects the corresponding node form (`at ... assume [ES ...]`, listed under assumptions); the recursive calls are used through the function's own contract",
			"truthiness of literals (isFalsy, which guards the folding of constant conditions): site assertions at the returns that commit to an answer, written from ToBoolean (ES 7.1.2) and the numeric literal grammar - a string literal is falsy exactly when nothing is between its quotes; a numeric literal exactly when every mantissa digit is zero, where for 0x/0b/0o literals every character after the prefix is a digit (b and e are hexadecimal digits) - with a loop invariant over the scanned prefix and the dependency's token shapes as stated A-lexer assumptions (F19 found and fixed: \"\" was truthy, 0xb and 0xe0 were zero)",
			"rewrite guards as site assertions / step clauses in the real code, each with the ECMAScript law that justifies the rewrite: string literals are merged only across additions (F20 found and fixed: a-\"b\"+\"c\"); an unused trailing parameter is dropped only if its default has no side effects (F22 found and fixed); a member access on a digits-only numeric literal gets a second dot and any other literal form exactly one (F21 found and fixed: (5.0).toString() printed 5.toString())",
			"isUndefined / isUndefinedOrNull are sound for the values they name, and the optional-chain rewrite cond ? ALT : a.b -> a?.b is performed only when ALT evaluates to undefined (a?.b yields undefined, not null, for a nullish a); grouping scan (generator-decided dataflow fact): wherever js.BinaryExpr{OP, L, R} is constructed and an operand comes from groupExpr(e, P), P is binaryLeft/RightPrecMap[OP] for the same OP",
			"open known findings F23-F25 (pinned by the test suite, so not repairable here): isNaN(x) -> x!=x, Math.trunc(x) -> x|0 and Math.abs(x) -> x<0?-x:x are performed for ANY variable although each is value-preserving only for particular argument types; the assertions that state the needed type fact fail and are reported as KNOWN-FINDING lines",
			"version gates (C16) and renaming (C02) are separate properties; their contracts are not repeated here",
			"not decided: observational equivalence of whole programs - it needs an operational semantics of ECMAScript and an induction over the printer and every rewrite (statement merging, ASI, hoisting, optimizeCondExpr/optimizeUnaryExpr, isTruthy/isFalsy, hasSideEffects, string/number/template/regexp literal rewriting); the parenthesisation logic that USES the tables (groupExpr and the printer) is not verified, only the tables; A-parser: AST nodes are non-nil",
		},
	})
	// C10 ("no panic"): every unit under FULL contract anywhere in this framework is also a unit of C10 - all of its
	// obligations (safety ones included) must discharge there, so that an edit inside such a function that introduces
	// an unprovable index or slice expression is reported by C10 itself and not only by the property the unit was
	// written for (in the zero-annotation sweep a NEW undischarged obligation is merely undecided)
	if c10 := props["C10"]; c10 != nil {
		seen := map[string]bool{}
		for _, u := range c10.Units {
			seen[u] = true
		}
		var ids []string
		for id := range props {
			ids = append(ids, id)
		}
		sort.Strings(ids)
		for _, id := range ids {
			if id == "C10" {
				continue
			}
			for _, u := range props[id].Units {
				if !seen[u] {
					seen[u] = true
					c10.Units = append(c10.Units, u)
				}
			}
		}
	}

}
