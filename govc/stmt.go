package main

import (
	"os"
	"fmt"
	"go/ast"
	"go/token"
	"go/types"
	"strings"
)

type Flow struct {
	normal *State
	brk    map[string][]*State
	cont   map[string][]*State
}

func (f *Flow) addBrk(l string, s *State) {
	if f.brk == nil {
		f.brk = map[string][]*State{}
	}
	f.brk[l] = append(f.brk[l], s)
}
func (f *Flow) addCont(l string, s *State) {
	if f.cont == nil {
		f.cont = map[string][]*State{}
	}
	f.cont[l] = append(f.cont[l], s)
}
func (f *Flow) absorb(g Flow) {
	for l, ss := range g.brk {
		for _, s := range ss {
			f.addBrk(l, s)
		}
	}
	for l, ss := range g.cont {
		for _, s := range ss {
			f.addCont(l, s)
		}
	}
}

func (vc *VC) execBlock(list []ast.Stmt, st *State) Flow {
	var out Flow
	cur := st
	for i, s := range list {
		if cur == nil || cur.pc.IsFalse() {
			cur = nil
			break
		}
		// tail duplication: `if … {…}` (without else) followed only by a final return: the return (and its
		// postconditions) is executed separately for the branch-taken and branch-not-taken states instead of on
		// their join, which keeps the quantified postconditions of look-ahead buffers within the solvers' reach
		if ifs, ok := s.(*ast.IfStmt); ok && ifs.Else == nil && ifs.Init == nil && i+2 == len(list) && vc.tailDup {
			if ret, ok := list[i+1].(*ast.ReturnStmt); ok {
				c := vc.eval(ifs.Cond, cur).C[0]
				thenSt := cur.clone()
				thenSt.pc = And(cur.pc, c)
				elseSt := cur.clone()
				elseSt.pc = And(cur.pc, Not(c))
				if !thenSt.pc.IsFalse() {
					f := vc.execBlock(ifs.Body.List, thenSt)
					out.absorb(f)
					if f.normal != nil && !f.normal.pc.IsFalse() {
						vc.applyAts(ret, f.normal)
						vc.execReturn(ret, f.normal)
					}
				}
				if !elseSt.pc.IsFalse() {
					vc.applyAts(ret, elseSt)
					vc.execReturn(ret, elseSt)
				}
				out.normal = nil
				return out
			}
		}
		f := vc.execStmt(s, cur, "")
		out.absorb(f)
		cur = f.normal
	}
	out.normal = cur
	return out
}

func (vc *VC) execStmt(s ast.Stmt, st *State, label string) Flow {
	if vc.outOfSubset != "" {
		return Flow{}
	}
	vc.applyAts(s, st)
	switch x := s.(type) {
	case *ast.EmptyStmt:
		return Flow{normal: st}
	case *ast.ExprStmt:
		vc.eval(x.X, st)
		if vc.neverReturns(x.X) {
			return Flow{}
		}
		return Flow{normal: st}
	case *ast.AssignStmt:
		vc.execAssign(x, st)
		return Flow{normal: st}
	case *ast.IncDecStmt:
		loc, ok := vc.lvalue(x.X, st, false)
		if !ok {
			vc.abstraction("incdec on unsupported location")
			return Flow{normal: st}
		}
		v := vc.loadLoc(loc, st)
		var r Val
		if x.Tok == token.INC {
			r = vc.arithResult(x, st, Add(v.C[0], One), loc.t)
		} else {
			r = vc.arithResult(x, st, Sub(v.C[0], One), loc.t)
		}
		vc.storeLoc(loc, st, r, x)
		return Flow{normal: st}
	case *ast.DeclStmt:
		gd := x.Decl.(*ast.GenDecl)
		if gd.Tok == token.VAR {
			for _, sp := range gd.Specs {
				vs := sp.(*ast.ValueSpec)
				if len(vs.Values) == 1 && len(vs.Names) > 1 {
					rv := vc.eval(vs.Values[0], st)
					vc.bindTuple(identsToExprs(vs.Names), rv, st, true, x)
					continue
				}
				for i, n := range vs.Names {
					obj, _ := vc.info.Defs[n].(*types.Var)
					if obj == nil {
						continue
					}
					var v Val
					if i < len(vs.Values) {
						v = vc.convertTo(vc.eval(vs.Values[i], st), obj.Type(), st, vs.Values[i])
					} else {
						v = zeroVal(obj.Type())
					}
					vc.declare(obj, v, st)
				}
			}
		}
		return Flow{normal: st}
	case *ast.BlockStmt:
		return vc.execBlock(x.List, st)
	case *ast.LabeledStmt:
		if vc.gotoTargets()[x.Label.Name] {
			// a label that some goto jumps to is the head of an unstructured loop: the state arriving there through a goto is
			// over-approximated by havocking everything the function body may assign (variables, the heaps it writes) before the
			// labelled statement runs; the goto itself ends its path (back edge). Sound, imprecise: nothing established before
			// the label survives it unless it is about unmodified things.
			vc.abstraction("label " + x.Label.Name + " is a goto target: state havoc'd at the label (unstructured loop head)")
			vc.havocForLoop(vc.fi.Decl.Body, nil, st, "goto target "+x.Label.Name)
		}
		return vc.execStmt(x.Stmt, st, x.Label.Name)
	case *ast.IfStmt:
		return vc.execIf(x, st)
	case *ast.ForStmt:
		return vc.execFor(x, st, label)
	case *ast.RangeStmt:
		return vc.execRange(x, st, label)
	case *ast.SwitchStmt:
		return vc.execSwitch(x, st, label)
	case *ast.TypeSwitchStmt:
		return vc.execTypeSwitch(x, st, label)
	case *ast.ReturnStmt:
		vc.execReturn(x, st)
		return Flow{}
	case *ast.BranchStmt:
		l := ""
		if x.Label != nil {
			l = x.Label.Name
		}
		var f Flow
		switch x.Tok {
		case token.BREAK:
			f.addBrk(l, st)
		case token.CONTINUE:
			f.addCont(l, st)
		case token.GOTO:
			if x.Label != nil && vc.gotoTargets()[x.Label.Name] {
				return Flow{} // back edge of the unstructured loop whose head (the label) was havoc'd
			}
			vc.outOfSubset = "goto"
		case token.FALLTHROUGH:
			f.addBrk("$fallthrough", st)
		}
		return f
	case *ast.DeferStmt:
		vc.deferred = append(vc.deferred, x)
		// arguments are evaluated now; we only support calls whose arguments are side-effect-free
		return Flow{normal: st}
	case *ast.GoStmt:
		// sequential abstraction of a spawn: the goroutine may run at any later time, so from here on every heap
		// location (including captured variables, which live in memory) is unknown; the spawn itself is a trace event
		vc.abstraction("go statement (spawn event + havoc of all heaps; the goroutine body is not verified)")
		vc.emitEvent(st, "Go", nil)
		vc.havocAll(st, "go statement")
		return Flow{normal: st}
	case *ast.SelectStmt:
		// channel operations are outside the sequential subset: the path ENDS here (nothing after it is generated or
		// claimed); obligations generated on the way here are unaffected
		vc.abstraction("select statement: path ends (code after it is not verified)")
		return Flow{}
	case *ast.SendStmt:
		vc.abstraction("channel send: path ends (code after it is not verified)")
		return Flow{}
	}
	vc.abstraction(fmt.Sprintf("statement %T", s))
	return Flow{normal: st}
}

func identsToExprs(ids []*ast.Ident) []ast.Expr {
	var out []ast.Expr
	for _, i := range ids {
		out = append(out, i)
	}
	return out
}

func (vc *VC) neverReturns(e ast.Expr) bool {
	if c, ok := e.(*ast.CallExpr); ok {
		if id, ok := c.Fun.(*ast.Ident); ok && id.Name == "panic" {
			if _, isB := vc.info.ObjectOf(id).(*types.Builtin); isB {
				return true
			}
		}
		if sel, ok := c.Fun.(*ast.SelectorExpr); ok {
			if id, ok := sel.X.(*ast.Ident); ok && id.Name == "os" && sel.Sel.Name == "Exit" {
				return true
			}
		}
	}
	return false
}

func (vc *VC) declare(obj *types.Var, v Val, st *State) {
	if vc.addrTaken[obj] {
		arr := vc.alloc(st)
		vc.storeComps(st, obj.Type(), arr, Zero, 0, v)
		st.vars[obj] = mkVal(types.NewPointer(obj.Type()), arr, Zero)
		return
	}
	st.vars[obj] = Val{T: obj.Type(), C: v.C}
}

func (vc *VC) assignTo(lhs ast.Expr, v Val, st *State, define bool, n ast.Node) {
	if id, ok := lhs.(*ast.Ident); ok {
		if id.Name == "_" {
			return
		}
		if define {
			if obj, ok := vc.info.Defs[id].(*types.Var); ok && obj != nil {
				vc.declare(obj, vc.convertTo(v, obj.Type(), st, n), st)
				return
			}
		}
	}
	loc, ok := vc.lvalue(lhs, st, false)
	if !ok {
		vc.abstraction("assignment to unsupported location " + nodeText(vc.prog.Fset, lhs))
		return
	}
	vc.storeLoc(loc, st, vc.convertTo(v, loc.t, st, n), n)
}

func (vc *VC) bindTuple(lhs []ast.Expr, rv Val, st *State, define bool, n ast.Node) {
	tup, ok := rv.T.(*types.Tuple)
	if !ok {
		vc.abstraction("tuple assignment from non-tuple")
		return
	}
	off := 0
	for i := 0; i < tup.Len() && i < len(lhs); i++ {
		ft := tup.At(i).Type()
		k := len(layout(ft))
		vc.assignTo(lhs[i], Val{T: ft, C: rv.C[off : off+k]}, st, define, n)
		off += k
	}
}

func (vc *VC) execAssign(x *ast.AssignStmt, st *State) {
	define := x.Tok == token.DEFINE
	if x.Tok != token.ASSIGN && x.Tok != token.DEFINE {
		// op-assign
		var op token.Token
		switch x.Tok {
		case token.ADD_ASSIGN:
			op = token.ADD
		case token.SUB_ASSIGN:
			op = token.SUB
		case token.MUL_ASSIGN:
			op = token.MUL
		case token.QUO_ASSIGN:
			op = token.QUO
		case token.REM_ASSIGN:
			op = token.REM
		case token.AND_ASSIGN:
			op = token.AND
		case token.OR_ASSIGN:
			op = token.OR
		case token.XOR_ASSIGN:
			op = token.XOR
		case token.SHL_ASSIGN:
			op = token.SHL
		case token.SHR_ASSIGN:
			op = token.SHR
		case token.AND_NOT_ASSIGN:
			op = token.AND_NOT
		}
		loc, ok := vc.lvalue(x.Lhs[0], st, false)
		if !ok {
			vc.abstraction("op-assign to unsupported location")
			vc.eval(x.Rhs[0], st)
			return
		}
		l := vc.loadLoc(loc, st)
		r := vc.eval(x.Rhs[0], st)
		var res Val
		switch kindOf(loc.t) {
		case KInt:
			res = vc.intBinop(x, op, l.C[0], r.C[0], loc.t, r.T, st)
		case KFloat:
			res = mkVal(loc.t, App("flt_"+opName(op), "Flt", l.C[0], r.C[0]))
		case KString:
			res = vc.stringConcat(l, r, st, loc.t)
		default:
			vc.abstraction("op-assign on " + typeKey(loc.t))
			res = vc.opaque(loc.t, "opassign")
		}
		// re-resolve the location: evaluating rhs (calls) cannot move it, store back
		vc.storeLoc(loc, st, res, x)
		return
	}
	if len(x.Lhs) > 1 && len(x.Rhs) == 1 {
		// multi-value
		var rv Val
		switch r := unparen(x.Rhs[0]).(type) {
		case *ast.IndexExpr:
			if kindOf(vc.typeOf(r.X)) == KMap {
				m := vc.eval(r.X, st)
				k := vc.eval(r.Index, st)
				v, has := vc.mapLoad(st, vc.typeOf(r.X), m, k)
				rv = Val{T: types.NewTuple(types.NewVar(0, nil, "", v.T), types.NewVar(0, nil, "", types.Typ[types.Bool])), C: append(append([]*Term{}, v.C...), has)}
			}
		case *ast.TypeAssertExpr:
			rv = vc.evalTypeAssert(r, st, true)
		}
		if rv.T == nil {
			rv = vc.eval(x.Rhs[0], st)
		}
		vc.bindTuple(x.Lhs, rv, st, define, x)
		return
	}
	// parallel assignment: evaluate all rhs first
	vals := make([]Val, len(x.Rhs))
	for i, r := range x.Rhs {
		vals[i] = vc.eval(r, st)
	}
	for i, l := range x.Lhs {
		vc.assignTo(l, vals[i], st, define, x)
	}
}

func (vc *VC) execIf(x *ast.IfStmt, st *State) Flow {
	var out Flow
	if x.Init != nil {
		f := vc.execStmt(x.Init, st, "")
		if f.normal == nil {
			return f
		}
		st = f.normal
	}
	c := vc.eval(x.Cond, st).C[0]
	thenSt := st.clone()
	thenSt.pc = And(st.pc, c)
	elseSt := st.clone()
	elseSt.pc = And(st.pc, Not(c))
	var tn, en *State
	if !thenSt.pc.IsFalse() {
		f := vc.execBlock(x.Body.List, thenSt)
		out.absorb(f)
		tn = f.normal
	}
	if !elseSt.pc.IsFalse() {
		if x.Else != nil {
			f := vc.execStmt(x.Else, elseSt, "")
			out.absorb(f)
			en = f.normal
		} else {
			en = elseSt
		}
	}
	out.normal = vc.join(tn, en)
	return out
}

func (vc *VC) execSwitch(x *ast.SwitchStmt, st *State, label string) Flow {
	var out Flow
	if x.Init != nil {
		f := vc.execStmt(x.Init, st, "")
		if f.normal == nil {
			return f
		}
		st = f.normal
	}
	var tag Val
	hasTag := x.Tag != nil
	if hasTag {
		tag = vc.eval(x.Tag, st)
	}
	var exits []*State
	notPrev := True // no earlier case matched
	var defaultClause *ast.CaseClause
	var fall *State // fallthrough state into next clause
	clauses := x.Body.List
	runBody := func(cc *ast.CaseClause, entry *State) {
		if entry == nil || entry.pc.IsFalse() {
			fall = nil
			return
		}
		f := vc.execBlock(cc.Body, entry)
		fall = nil
		for l, ss := range f.brk {
			switch l {
			case "", label:
				if l == "" || label != "" {
					exits = append(exits, ss...)
					continue
				}
				for _, s := range ss {
					out.addBrk(l, s)
				}
			case "$fallthrough":
				fall = vc.joinAll(ss)
			default:
				for _, s := range ss {
					out.addBrk(l, s)
				}
			}
		}
		for l, ss := range f.cont {
			for _, s := range ss {
				out.addCont(l, s)
			}
		}
		if f.normal != nil {
			exits = append(exits, f.normal)
		}
	}
	for _, cs := range clauses {
		cc := cs.(*ast.CaseClause)
		if cc.List == nil {
			defaultClause = cc
			// default body runs later, but fallthrough INTO default from previous clause is positional; rare: unsupported
			continue
		}
		var conds []*Term
		for _, e := range cc.List {
			if hasTag {
				v := vc.eval(e, st)
				if kindOf(tag.T) == KString {
					conds = append(conds, vc.stringEq(tag, v, st))
				} else if len(v.C) == len(tag.C) {
					conds = append(conds, eqVal(tag, v))
				} else {
					vc.abstraction("switch case comparison of different layouts")
					conds = append(conds, vc.fresh("casecmp", SBool))
				}
			} else {
				conds = append(conds, vc.eval(e, st).C[0])
			}
		}
		match := And(notPrev, Or(conds...))
		entry := st.clone()
		entry.pc = And(st.pc, match)
		entry = vc.join(fall, entry)
		notPrev = And(notPrev, Not(Or(conds...)))
		runBody(cc, entry)
	}
	// default / no match
	rest := st.clone()
	rest.pc = And(st.pc, notPrev)
	if defaultClause != nil {
		runBody(defaultClause, rest)
	} else if !rest.pc.IsFalse() {
		exits = append(exits, rest)
	}
	out.normal = vc.joinAll(exits)
	return out
}

func (vc *VC) execTypeSwitch(x *ast.TypeSwitchStmt, st *State, label string) Flow {
	var out Flow
	if x.Init != nil {
		f := vc.execStmt(x.Init, st, "")
		if f.normal == nil {
			return f
		}
		st = f.normal
	}
	var subject ast.Expr
	var bindName *ast.Ident
	switch a := x.Assign.(type) {
	case *ast.ExprStmt:
		subject = a.X.(*ast.TypeAssertExpr).X
	case *ast.AssignStmt:
		subject = a.Rhs[0].(*ast.TypeAssertExpr).X
		bindName = a.Lhs[0].(*ast.Ident)
	}
	_ = bindName
	sv := vc.eval(subject, st)
	var exits []*State
	notPrev := True
	var def *ast.CaseClause
	run := func(cc *ast.CaseClause, entry *State, single types.Type) {
		if entry.pc.IsFalse() {
			return
		}
		if obj, ok := vc.info.Implicits[cc].(*types.Var); ok && obj != nil {
			var bv Val
			if single != nil && kindOf(single) != KIface {
				switch kindOf(single) {
				case KPtr:
					bv = mkVal(single, App("unbox_ptr_arr", SInt, sv.C[1]), App("unbox_ptr_idx", SInt, sv.C[1]))
					vc.typingVal(bv)
				case KInt:
					bv = mkVal(single, sv.C[1])
				default:
					bv = vc.freshVal(single, "tsw")
				}
			} else {
				bv = Val{T: obj.Type(), C: sv.C}
			}
			vc.declare(obj, bv, entry)
		}
		f := vc.execBlock(cc.Body, entry)
		for l, ss := range f.brk {
			if l == "" || (label != "" && l == label) {
				exits = append(exits, ss...)
			} else {
				for _, s := range ss {
					out.addBrk(l, s)
				}
			}
		}
		for l, ss := range f.cont {
			for _, s := range ss {
				out.addCont(l, s)
			}
		}
		if f.normal != nil {
			exits = append(exits, f.normal)
		}
	}
	for _, cs := range x.Body.List {
		cc := cs.(*ast.CaseClause)
		if cc.List == nil {
			def = cc
			continue
		}
		var conds []*Term
		var single types.Type
		for _, e := range cc.List {
			if isNilExpr(vc, e) {
				conds = append(conds, Eq(sv.C[0], Zero))
				continue
			}
			t := vc.typeOf(e)
			if kindOf(t) == KIface {
				c := vc.fresh("implements", SBool)
				vc.assume(Implies(c, Ne(sv.C[0], Zero)))
				conds = append(conds, c)
			} else {
				conds = append(conds, Eq(sv.C[0], IntK(dynTypeID(t))))
			}
			if len(cc.List) == 1 {
				single = t
			}
		}
		entry := st.clone()
		entry.pc = And(st.pc, notPrev, Or(conds...))
		notPrev = And(notPrev, Not(Or(conds...)))
		run(cc, entry, single)
	}
	rest := st.clone()
	rest.pc = And(st.pc, notPrev)
	if def != nil {
		run(def, rest, nil)
	} else if !rest.pc.IsFalse() {
		exits = append(exits, rest)
	}
	out.normal = vc.joinAll(exits)
	return out
}

// ---- returns

func (vc *VC) execReturn(x *ast.ReturnStmt, st *State) {
	if len(x.Results) > 0 {
		if len(x.Results) == 1 && len(vc.resObjs) > 1 {
			rv := vc.eval(x.Results[0], st)
			off := 0
			for _, ro := range vc.resObjs {
				k := len(layout(ro.Type()))
				st.vars[ro] = Val{T: ro.Type(), C: rv.C[off : off+k]}
				off += k
			}
		} else {
			vals := make([]Val, len(x.Results))
			for i, r := range x.Results {
				vals[i] = vc.eval(r, st)
			}
			for i, ro := range vc.resObjs {
				st.vars[ro] = vc.convertTo(vals[i], ro.Type(), st, x)
			}
		}
	}
	vc.finishReturn(st, x)
}

func (vc *VC) finishReturn(st *State, n ast.Node) {
	if os.Getenv("GOVC_DEBUG_DEFER") != "" {
		fmt.Fprintf(os.Stderr, "finishReturn %s: %d deferred\n", vc.unit, len(vc.deferred))
	}
	// run deferred calls (LIFO)
	for i := len(vc.deferred) - 1; i >= 0; i-- {
		d := vc.deferred[i]
		if _, isLit := d.Call.Fun.(*ast.FuncLit); isLit {
			vc.abstraction("deferred closure (havoc)")
			vc.havocAll(st, "deferred closure")
			continue
		}
		if os.Getenv("GOVC_DEBUG_DEFER") != "" {
			fmt.Fprintf(os.Stderr, "  before deferred call: tracelen=%s\n", clipS(vc.heap(st, "$TraceLen", SInt).String(), 100))
		}
		vc.evalCall(d.Call, st)
		if os.Getenv("GOVC_DEBUG_DEFER") != "" {
			fmt.Fprintf(os.Stderr, "  after deferred call: tracelen=%s\n", clipS(vc.heap(st, "$TraceLen", SInt).String(), 100))
		}
	}
	vc.rets = append(vc.rets, st)
	vc.checkPosts(st, n)
}

// ---- loops

func (vc *VC) loopSpec(s ast.Stmt) *LoopSpec {
	ord := vc.loopOrd[s]
	if vc.con == nil {
		return nil
	}
	ls := vc.con.Loops[ord]
	if ls == nil {
		return nil
	}
	hdr := loopHeader(vc.prog.Fset, s)
	if ls.Snippet != "" && !strings.HasPrefix(hdr, ls.Snippet) {
		vc.prog.errf(vc.con.File, vc.con.Line, "%s: loop %d contract no longer binds: header is %q, contract says %q", vc.unit, ord, hdr, ls.Snippet)
		return nil
	}
	return ls
}

type loopCtx struct {
	stmt   ast.Stmt
	spec   *LoopSpec
	ord    int
	head   *State
	v0     *Term
	pos    token.Pos
	autoInv []func(st *State) (*Term, string)
	preSt  *State // state before the loop
	idxNow *Term // hidden index of a range loop at the point an invariant is evaluated (spec name: idx)
	iterIdx *Term // range loops: the index of the iteration a step clause talks about (spec name: idx inside step clauses)
	ranged  *Val  // range loops over slices/arrays: the value ranged over (spec name: ranged)
}

// havocForLoop havocs the modification set of the loop body in st (in place).
func (vc *VC) havocForLoop(body ast.Node, extra []ast.Node, st *State, hint string) {
	mi := vc.modSet(body)
	for _, e := range extra {
		if e == nil {
			continue
		}
		m2 := vc.modSet(e)
		for o, fs := range m2.fields {
			if mi.fields[o] == nil {
				mi.fields[o] = map[string]bool{}
			}
			for f := range fs {
				mi.fields[o][f] = true
			}
		}
		for o := range m2.objs {
			mi.objs[o] = true
		}
		mi.heapWrite = mi.heapWrite || m2.heapWrite
		mi.calls = append(mi.calls, m2.calls...)
	}
	for _, o := range sortedObjs(mi.objs) {
		v, ok := st.vars[o]
		if !ok {
			continue
		}
		if vc.addrTaken[o] {
			continue // lives in memory
		}
		st.vars[o] = vc.freshVal(v.T, o.Name())
	}
	// struct locals with only some fields assigned: havoc those fields' components only
	for o, fs := range mi.fields {
		if mi.objs[o] || vc.addrTaken[o] {
			continue
		}
		v, ok := st.vars[o]
		if !ok {
			continue
		}
		nc := append([]*Term{}, v.C...)
		for f := range fs {
			lo, hi, ft, ok := fieldRange(v.T, f)
			if !ok {
				continue
			}
			fv := vc.freshVal(ft, o.Name()+"."+f)
			copy(nc[lo:hi], fv.C)
		}
		st.vars[o] = Val{T: v.T, C: nc}
	}
	// heaps
	types_, all := vc.heapWriteSet(body, extra, mi)
	if all {
		vc.havocAll(st, hint)
		return
	}
	for _, t := range types_ {
		vc.havocType(st, t)
	}
	// globals assigned directly
	for o := range mi.objs {
		if v, ok := o.(*types.Var); ok && v.Pkg() != nil && v.Parent() == v.Pkg().Scope() {
			for _, cp := range layout(v.Type()) {
				name := globalKey(v) + cp.Path
				vc.heap(st, name, cp.Sort)
				st.heaps[name] = vc.fresh(name, cp.Sort)
			}
		}
	}
	if len(mi.calls) > 0 {
		// allocation counter / trace may advance
		// the ghost trace is append-only: materialise it, and keep the prefix below the old length
		oldLen := vc.heap(st, "$TraceLen", SInt)
		vc.heap(st, "$Trace", SArr)
		vc.heap(st, "$TraceArgs", SMem)
		vc.fuelStep(st)
		for _, name := range []string{"$nextArr", "$TraceLen", "$Trace", "$TraceArgs"} {
			if h, ok := st.heaps[name]; ok {
				nh := vc.fresh(name, h.Sort)
				if name == "$nextArr" || name == "$TraceLen" {
					vc.assume(Le(h, nh))
				} else {
					k := vc.fresh("tk", SInt)
					vc.assume(Forall([]*Term{k}, Implies(Lt(k, oldLen), Eq(Select(nh, k), Select(h, k)))))
				}
				st.heaps[name] = nh
			} else if name == "$nextArr" {
				h := vc.nextArr(st)
				nh := vc.fresh(name, SInt)
				vc.assume(Le(h, nh))
				st.heaps[name] = nh
			}
		}
	}
}

func (vc *VC) havocType(st *State, t types.Type) {
	for _, cp := range layout(t) {
		name := heapNameFor(t, cp)
		vc.heap(st, name, heapSort(cp))
		st.heaps[name] = vc.fresh(name, heapSort(cp))
	}
}

var epochCounter = 0

func (vc *VC) havocAll(st *State, why string) {
	epochCounter++
	st.epoch = epochCounter
	for name, h := range st.heaps {
		if name == "$Trace" || name == "$TraceArgs" || name == "$TraceLen" {
			continue // the ghost trace of this function's own calls is only ever appended to
		}
		if strings.HasPrefix(name, "G[") {
			// A-globals-immutable: package-level variables are not reassigned after initialisation (an F obligation of
			// this framework for /repo's packages - the fscan checker - and an assumption for dependencies); the
			// memory they point to is still havoc'd below
			continue
		}
		if name == "$nextArr" {
			nh := vc.fresh(name, h.Sort)
			vc.assume(Le(h, nh))
			st.heaps[name] = nh
			continue
		}
		if name == "$Fuel" {
			vc.fuelStep(st)
			continue
		}
		if strings.HasPrefix(name, "$Ghost:") {
			continue // havoc'd by fuelStep
		}
		st.heaps[name] = vc.fresh(name, h.Sort)
	}
	// heaps not yet materialised are unknown too: materialise all known names
	for name, s := range vc.heapSorts {
		if strings.HasPrefix(name, "$Trace") || strings.HasPrefix(name, "G[") || name == "$Fuel" || strings.HasPrefix(name, "$Ghost:") {
			continue
		}
		if _, ok := st.heaps[name]; !ok {
			st.heaps[name] = vc.fresh(name, s)
		}
	}
}

// heapWriteSet determines which element types' memories may be written by the subtree.
func (vc *VC) heapWriteSet(body ast.Node, extra []ast.Node, mi *modInfo) ([]types.Type, bool) {
	seen := map[string]types.Type{}
	all := false
	add := func(t types.Type) {
		if t != nil {
			seen[typeKey(t)] = t
		}
	}
	var lhs func(e ast.Expr)
	lhs = func(e ast.Expr) {
		switch x := e.(type) {
		case *ast.ParenExpr:
			lhs(x.X)
		case *ast.IndexExpr:
			bt := vc.typeOf(x.X)
			switch kindOf(bt) {
			case KSlice, KArray:
				add(elemTypeOf(bt))
			case KMap:
				add(bt) // handled by name below
			}
		case *ast.StarExpr:
			add(elemTypeOf(vc.typeOf(x.X)))
		case *ast.SelectorExpr:
			bt := vc.typeOf(x.X)
			if kindOf(bt) == KPtr {
				add(elemTypeOf(bt))
			} else {
				lhs(x.X)
			}
		case *ast.Ident:
			if o, ok := vc.info.ObjectOf(x).(*types.Var); ok && vc.addrTaken[o] {
				add(o.Type())
			}
		}
	}
	visit := func(n ast.Node) {
		inspectNonExiting(n, func(x ast.Node) bool {
			switch s := x.(type) {
			case *ast.FuncLit:
				all = true
				return false
			case *ast.AssignStmt:
				for _, l := range s.Lhs {
					lhs(l)
				}
			case *ast.IncDecStmt:
				lhs(s.X)
			case *ast.RangeStmt:
				if s.Key != nil {
					lhs(s.Key)
				}
				if s.Value != nil {
					lhs(s.Value)
				}
			case *ast.CallExpr:
				ts, a := vc.callWrites(s)
				if a {
					all = true
				}
				for _, t := range ts {
					add(t)
				}
			}
			return true
		})
	}
	visit(body)
	for _, e := range extra {
		if e != nil {
			visit(e)
		}
	}
	var out []types.Type
	for _, k := range sortedKeys(seen) {
		out = append(out, seen[k])
	}
	return out, all
}

func (vc *VC) inLoopInvariantCheck(lc *loopCtx, st *State, kind string) {
	if lc.spec != nil {
		env := vc.specEnvAt(st, lc.pos)
		env.pre = lc.preSt
		if lc.idxNow != nil {
			env.names["idx"] = intVal(lc.idxNow)
		}
		for i, inv := range lc.spec.Invariants {
			t := vc.specBool(env, inv.Expr)
			tag := inv.Tag
			if tag == "" {
				tag = inv.Text
			}
			vc.oblige(st, kind, nil, fmt.Sprintf("loop%d:%s", lc.ord, clip(tag)), t).Note = fmt.Sprintf("invariant %d", i+1)
		}
	}
	for _, ai := range lc.autoInv {
		t, name := ai(st)
		vc.oblige(st, kind, nil, fmt.Sprintf("loop%d:%s", lc.ord, name), t)
	}
}

func clip(s string) string {
	s = strings.Join(strings.Fields(s), " ")
	if len(s) > 60 {
		return s[:60] + "…"
	}
	return s
}

func (vc *VC) assumeAt(st *State, t *Term) {
	vc.assume(Implies(st.pc, t))
}

func (vc *VC) loopAssumeInvariants(lc *loopCtx, st *State) {
	if lc.spec != nil {
		env := vc.specEnvAt(st, lc.pos)
		env.pre = lc.preSt
		if lc.idxNow != nil {
			env.names["idx"] = intVal(lc.idxNow)
		}
		for _, inv := range lc.spec.Invariants {
			vc.assumeAt(st, vc.specAssumable(env, inv.Expr))
		}
	}
	for _, ai := range lc.autoInv {
		t, _ := ai(st)
		vc.assumeAt(st, t)
	}
}

// frameAutoInv: if the function has a modifies clause (or is pure), each loop keeps the function frame.
func (vc *VC) frameAutoInv() []func(st *State) (*Term, string) {
	if vc.con == nil || vc.con.NoFrame || vc.sweep {
		return nil
	}
	return []func(st *State) (*Term, string){func(st *State) (*Term, string) {
		return vc.frameFormula(st), "frame"
	}}
}

func (vc *VC) execFor(x *ast.ForStmt, st *State, label string) Flow {
	var out Flow
	if x.Init != nil {
		f := vc.execStmt(x.Init, st, "")
		if f.normal == nil {
			return f
		}
		st = f.normal
	}
	lc := &loopCtx{stmt: x, spec: vc.loopSpec(x), ord: vc.loopOrd[x], pos: x.Body.Lbrace + 1, autoInv: vc.frameAutoInv()}
	lc.preSt = st.clone()
	vc.inLoopInvariantCheck(lc, st, "inv.init")
	head := st.clone()
	vc.havocForLoop(x.Body, []ast.Node{x.Post, x.Cond}, head, "loop")
	vc.loopAssumeInvariants(lc, head)
	lc.head = head
	headSnap := head.clone()
	condSt := head
	c := True
	if x.Cond != nil {
		c = vc.eval(x.Cond, condSt).C[0]
	}
	body := condSt.clone()
	body.pc = And(condSt.pc, c)
	body.iterSnap = headSnap
	exit := condSt.clone()
	exit.pc = And(condSt.pc, Not(c))
	vc.cover(body, nil, fmt.Sprintf("loop%d:body-reachable", lc.ord))
	var v0 *Term
	var autos []autoVariant
	if lc.spec != nil && lc.spec.Decreases != nil {
		v0 = vc.specInt(vc.specEnvAt(body, lc.pos), lc.spec.Decreases.Expr)
	} else {
		// measured where the iteration starts (before the condition is evaluated: a condition may itself consume
		// tokens), under the path condition of entering the body
		m0 := headSnap.clone()
		m0.pc = body.pc
		autos = vc.autoVariants(x, m0)
	}
	f := vc.execBlock(x.Body.List, body)
	var backs []*State
	if f.normal != nil {
		backs = append(backs, f.normal)
	}
	exits := []*State{}
	if !exit.pc.IsFalse() {
		exits = append(exits, exit)
	}
	for l, ss := range f.brk {
		if l == "" || (label != "" && l == label) {
			exits = append(exits, ss...)
		} else {
			for _, s := range ss {
				out.addBrk(l, s)
			}
		}
	}
	for l, ss := range f.cont {
		if l == "" || (label != "" && l == label) {
			backs = append(backs, ss...)
		} else {
			for _, s := range ss {
				out.addCont(l, s)
			}
		}
	}
	back := vc.joinAll(backs)
	if back != nil {
		if x.Post != nil {
			pf := vc.execStmt(x.Post, back, "")
			back = pf.normal
		}
		if back != nil {
			vc.stepEnsures(lc, back, headSnap)
			vc.inLoopInvariantCheck(lc, back, "inv.keep")
			if v0 != nil {
				v1 := vc.specInt(vc.specEnvAt(back, lc.pos), lc.spec.Decreases.Expr)
				vc.oblige(back, "variant", nil, fmt.Sprintf("loop%d:decreases %s", lc.ord, clip(lc.spec.Decreases.Text)), And(Le(Zero, v0), Lt(v1, v0)))
			}
			for _, av := range autos {
				if v1, ok := av.eval(back); ok {
					vc.oblige(back, "variant.auto", nil, fmt.Sprintf("loop%d:%s", lc.ord, av.text), And(Le(Zero, av.v0), Lt(v1, av.v0)))
				}
			}
		}
	}
	for _, e := range exits {
		e.iterSnap = st.iterSnap
	}
	out.normal = vc.joinAll(exits)
	return out
}

func (vc *VC) stepEnsures(lc *loopCtx, back *State, headSnap *State) {
	if lc.spec == nil {
		return
	}
	for _, c := range lc.spec.StepEns {
		env := vc.specEnvAt(back, lc.pos)
		env.iter = headSnap
		if lc.iterIdx != nil {
			env.names["idx"] = intVal(lc.iterIdx)
		}
		if lc.ranged != nil {
			env.names["ranged"] = *lc.ranged
		}
		t := vc.specBool(env, c.Expr)
		tag := c.Tag
		if tag == "" {
			tag = c.Text
		}
		vc.oblige(back, "step", nil, fmt.Sprintf("loop%d:%s", lc.ord, clip(tag)), t)
	}
}

func (vc *VC) execRange(x *ast.RangeStmt, st *State, label string) Flow {
	var out Flow
	xt := vc.typeOf(x.X)
	define := x.Tok == token.DEFINE
	var n *Term
	var rv Val
	kind := kindOf(xt)
	switch kind {
	case KSlice:
		rv = vc.eval(x.X, st)
		n = rv.Len()
	case KArray:
		rv = vc.eval(x.X, st)
		n = IntK(xt.Underlying().(*types.Array).Len())
	case KInt:
		rv = vc.eval(x.X, st)
		n = rv.C[0]
	case KString:
		rv = vc.eval(x.X, st)
		n = rv.C[2]
	case KPtr:
		if at, ok := elemTypeOf(xt).Underlying().(*types.Array); ok {
			p := vc.eval(x.X, st)
			vc.oblige(st, "nil.deref", x, "", Ne(p.C[0], Zero))
			rv = vc.loadElem(st, elemTypeOf(xt), p.C[0], p.C[1])
			n = IntK(at.Len())
			xt = elemTypeOf(xt)
			kind = KArray
			break
		}
		fallthrough
	default:
		// map / channel / func iteration: nondeterministic number of iterations with unknown key/value
		rv = vc.eval(x.X, st)
		n = nil
	}
	lc := &loopCtx{stmt: x, spec: vc.loopSpec(x), ord: vc.loopOrd[x], pos: x.Body.Lbrace + 1, autoInv: vc.frameAutoInv()}
	// hidden index; the key variable equals it at the loop head (for invariants)
	var keyObj *types.Var
	if x.Key != nil {
		if id, ok := x.Key.(*ast.Ident); ok && id.Name != "_" {
			if define {
				keyObj, _ = vc.info.Defs[id].(*types.Var)
			} else {
				keyObj, _ = vc.info.ObjectOf(id).(*types.Var)
			}
		}
	}
	intKey := n != nil && kind != KString || (kind == KString && false)
	if kind == KString {
		// byte offsets advance by rune width: abstract
		intKey = false
	}
	idx0 := Zero
	setKey := func(s *State, idx *Term) {
		if keyObj != nil && intKey {
			if vc.addrTaken[keyObj] {
				if _, ok := s.vars[keyObj]; !ok {
					vc.declare(keyObj, mkVal(keyObj.Type(), idx), s)
				} else {
					pv := s.vars[keyObj]
					vc.storeComps(s, keyObj.Type(), pv.C[0], pv.C[1], 0, mkVal(keyObj.Type(), idx))
				}
			} else {
				s.vars[keyObj] = mkVal(keyObj.Type(), idx)
			}
		}
	}
	pre := st.clone()
	if intKey {
		setKey(pre, idx0)
	}
	lc.idxNow = idx0
	lc.preSt = st.clone()
	vc.inLoopInvariantCheck(lc, pre, "inv.init")
	head := st.clone()
	vc.havocForLoop(x.Body, nil, head, "range loop")
	var idx *Term
	if n != nil {
		idx = vc.fresh("idx", SInt)
		vc.assume(Implies(head.pc, And(Le(Zero, idx), Le(idx, n))))
		if intKey {
			setKey(head, idx)
		}
		lc.idxNow = idx
	}
	vc.loopAssumeInvariants(lc, head)
	headSnap := head.clone()
	var c *Term
	if n != nil {
		c = Lt(idx, n)
	} else {
		c = vc.fresh("more", SBool)
	}
	body := head.clone()
	body.pc = And(head.pc, c)
	body.iterSnap = headSnap
	exit := head.clone()
	exit.pc = And(head.pc, Not(c))
	vc.cover(body, nil, fmt.Sprintf("loop%d:body-reachable", lc.ord))
	// bind key / value
	if x.Key != nil && !intKey {
		if id, ok := x.Key.(*ast.Ident); ok && id.Name != "_" {
			kt := vc.typeOf(x.Key)
			if kt == nil && keyObj != nil {
				kt = keyObj.Type()
			}
			if kt == nil {
				kt = types.Typ[types.Int]
			}
			kv := vc.freshVal(kt, "key")
			if kind == KString && idx != nil {
				vc.assume(And(Le(Zero, kv.C[0]), Lt(kv.C[0], n)))
			}
			vc.assignTo(x.Key, kv, body, define, x)
		}
	}
	if x.Value != nil {
		if id, ok := x.Value.(*ast.Ident); !ok || id.Name != "_" {
			var ev Val
			switch kind {
			case KSlice:
				ev = vc.loadElem(body, elemTypeOf(xt), rv.Arr(), Add(rv.Off(), idx))
			case KArray:
				ev = vc.loadElem(body, elemTypeOf(xt), rv.C[0], idx)
			case KString:
				ev = vc.freshVal(types.Typ[types.Rune], "rune")
				vc.abstraction("range over string (runes abstracted)")
			default:
				vt := vc.typeOf(x.Value)
				if vt == nil {
					if vo, ok := vc.info.Defs[x.Value.(*ast.Ident)].(*types.Var); ok {
						vt = vo.Type()
					}
				}
				ev = vc.freshVal(vt, "val")
				vc.abstraction("range over " + typeKey(xt) + " (iteration abstracted)")
			}
			vc.assignTo(x.Value, ev, body, define, x)
		}
	}
	f := vc.execBlock(x.Body.List, body)
	var backs []*State
	if f.normal != nil {
		backs = append(backs, f.normal)
	}
	exits := []*State{}
	if !exit.pc.IsFalse() {
		exits = append(exits, exit)
	}
	for l, ss := range f.brk {
		if l == "" || (label != "" && l == label) {
			exits = append(exits, ss...)
		} else {
			for _, s := range ss {
				out.addBrk(l, s)
			}
		}
	}
	for l, ss := range f.cont {
		if l == "" || (label != "" && l == label) {
			backs = append(backs, ss...)
		} else {
			for _, s := range ss {
				out.addCont(l, s)
			}
		}
	}
	back := vc.joinAll(backs)
	if back != nil {
		if intKey && idx != nil {
			setKey(back, Add(idx, One))
		}
		if idx != nil {
			lc.idxNow = Add(idx, One)
			lc.iterIdx = idx
			if kind == KSlice || kind == KArray {
				r := rv
				lc.ranged = &r
			}
		}
		vc.stepEnsures(lc, back, headSnap)
		vc.inLoopInvariantCheck(lc, back, "inv.keep")
	}
	for _, e := range exits {
		e.iterSnap = st.iterSnap
	}
	out.normal = vc.joinAll(exits)
	return out
}

// ---- at-anchors

func (vc *VC) applyAts(s ast.Stmt, st *State) {
	if vc.con == nil || len(vc.con.Ats) == 0 {
		return
	}
	specs := vc.atMap()[s]
	covered := false
	for _, a := range specs {
		if !covered {
			// vacuity guard per asserted site: the site is reachable under everything assumed so far (an assertion
			// at a site made unreachable by a contradictory assumption would otherwise pass for free)
			vc.cover(st, nil, fmt.Sprintf("site %s#%d:reachable", clip(a.Snippet), a.Occur))
			covered = true
		}
		env := vc.specEnvAt(st, s.Pos())
		t := vc.specBool(env, a.Clause.Expr)
		switch a.Kind {
		case "assert":
			label := clip(a.Clause.Text)
			if a.Clause.Tag != "" {
				label = "[" + a.Clause.Tag + "]"
			}
			vc.oblige(st, "assert", nil, fmt.Sprintf("at %s#%d:%s", clip(a.Snippet), a.Occur, label), t)
			vc.assumeAt(st, t)
		case "assume":
			vc.assumeAt(st, t)
			vc.abstraction("ASSUME at " + a.Snippet + ": " + a.Clause.Text)
		}
	}
}

var atMaps = map[*VC]map[ast.Stmt][]*AtSpec{}

func (vc *VC) atMap() map[ast.Stmt][]*AtSpec {
	if m, ok := atMaps[vc]; ok {
		return m
	}
	m := map[ast.Stmt][]*AtSpec{}
	counts := map[string]int{}
	bound := map[*AtSpec]bool{}
	ast.Inspect(vc.fi.Decl.Body, func(n ast.Node) bool {
		s, ok := n.(ast.Stmt)
		if !ok {
			return true
		}
		if _, isBlock := s.(*ast.BlockStmt); isBlock {
			return true
		}
		txt := nodeTextFull(vc.prog.Fset, s)
		for _, a := range vc.con.Ats {
			if strings.HasPrefix(txt, a.Snippet) {
				key := a.Snippet
				// count each statement once per distinct snippet
				ck := fmt.Sprintf("%s@%d", key, s.Pos())
				if counts[ck] == 0 {
					counts[key]++
					counts[ck] = counts[key]
				}
				if counts[ck] == a.Occur {
					m[s] = append(m[s], a)
					bound[a] = true
				}
			}
		}
		return true
	})
	for _, a := range vc.con.Ats {
		if !bound[a] {
			vc.prog.errf(vc.con.File, a.Clause.Line, "%s: at-anchor %q #%d no longer binds", vc.unit, a.Snippet, a.Occur)
		}
	}
	atMaps[vc] = m
	return m
}

func nodeTextFull(fset *token.FileSet, n ast.Node) string {
	s := nodeText(fset, n)
	return s
}

// ---- automatic loop variants (termination sweep)
// A `for` loop without a `decreases` clause gets candidate variants read off its condition: for a conjunct a < b the
// measure b - a, for a <= b the measure b - a + 1, and symmetrically for > and >=; a loop without condition (and any loop
// whose body calls something) also gets the ghost token measure fuel(). Each candidate is an obligation of kind
// variant.auto: "the measure is non-negative when the body is entered and strictly smaller at the back edge". Only
// discharged candidates are registered and claimed; a loop none of whose candidates discharges is undecided.
type autoVariant struct {
	text string
	v0   *Term
	eval func(st *State) (*Term, bool)
}

func (vc *VC) autoVariants(x *ast.ForStmt, body *State) []autoVariant {
	var out []autoVariant
	simple := func(e ast.Expr) bool {
		ok := true
		ast.Inspect(e, func(n ast.Node) bool {
			switch c := n.(type) {
			case *ast.CallExpr:
				id, isId := unparen(c.Fun).(*ast.Ident)
				if !isId || (id.Name != "len" && id.Name != "cap") {
					ok = false
				} else if _, isB := vc.info.ObjectOf(id).(*types.Builtin); !isB {
					ok = false
				}
			case *ast.FuncLit, *ast.UnaryExpr, *ast.StarExpr, *ast.TypeAssertExpr:
				if u, isU := c.(*ast.UnaryExpr); !isU || u.Op != token.SUB {
					ok = false
				}
			}
			return ok
		})
		return ok && kindOf(vc.typeOf(e)) == KInt
	}
	quietInt := func(e ast.Expr, st *State) (t *Term, ok bool) {
		vc.quiet = true
		defer func() {
			vc.quiet = false
			if r := recover(); r != nil {
				t, ok = nil, false
			}
		}()
		v := vc.eval(e, st.clone())
		if len(v.C) != 1 || v.C[0].Sort != SInt {
			return nil, false
		}
		return v.C[0], true
	}
	var conj func(e ast.Expr)
	conj = func(e ast.Expr) {
		e = unparen(e)
		b, isB := e.(*ast.BinaryExpr)
		if !isB {
			return
		}
		if b.Op == token.LAND {
			conj(b.X)
			conj(b.Y)
			return
		}
		var hi, lo ast.Expr
		plus := int64(0)
		switch b.Op {
		case token.LSS:
			lo, hi = b.X, b.Y
		case token.LEQ:
			lo, hi, plus = b.X, b.Y, 1
		case token.GTR:
			lo, hi = b.Y, b.X
		case token.GEQ:
			lo, hi, plus = b.Y, b.X, 1
		default:
			return
		}
		if !simple(lo) || !simple(hi) {
			return
		}
		measure := func(st *State) (*Term, bool) {
			h, ok1 := quietInt(hi, st)
			l, ok2 := quietInt(lo, st)
			if !ok1 || !ok2 {
				return nil, false
			}
			return Add(Sub(h, l), IntK(plus)), true
		}
		if v0, ok := measure(body); ok {
			out = append(out, autoVariant{text: "auto " + clip(nodeText(vc.prog.Fset, hi)+" - "+nodeText(vc.prog.Fset, lo)), v0: v0, eval: measure})
		}
	}
	if x.Cond != nil {
		conj(x.Cond)
	}
	calls := false
	var where ast.Node = x.Body
	if x.Cond != nil {
		where = &ast.BlockStmt{List: []ast.Stmt{&ast.ExprStmt{X: x.Cond}, x.Body}}
	}
	ast.Inspect(where, func(n ast.Node) bool {
		if c, ok := n.(*ast.CallExpr); ok {
			if id, isId := unparen(c.Fun).(*ast.Ident); isId {
				if _, isB := vc.info.ObjectOf(id).(*types.Builtin); isB {
					return true
				}
			}
			if tv, ok := vc.info.Types[c.Fun]; ok && tv.IsType() {
				return true
			}
			calls = true
		}
		return true
	})
	if calls && len(out) == 0 {
		fuelAt := func(st *State) (*Term, bool) { return vc.heap(st, "$Fuel", SInt), true }
		f0, _ := fuelAt(body)
		out = append(out, autoVariant{text: "auto fuel()", v0: f0, eval: fuelAt})
		// look-ahead loops: `for { t := tb.Peek(i); ...; i++ }` end because the look-ahead distance overtakes the
		// number of remaining tokens - candidate fuel() - i for every integer variable the body increments
		seen := map[types.Object]bool{}
		ast.Inspect(x.Body, func(n ast.Node) bool {
			if _, isLit := n.(*ast.FuncLit); isLit {
				return false
			}
			inc, isInc := n.(*ast.IncDecStmt)
			if !isInc || inc.Tok != token.INC {
				return true
			}
			id, isId := unparen(inc.X).(*ast.Ident)
			if !isId || kindOf(vc.typeOf(id)) != KInt {
				return true
			}
			o := vc.info.ObjectOf(id)
			if o == nil || seen[o] {
				return true
			}
			seen[o] = true
			at := func(st *State) (*Term, bool) {
				i, ok := quietInt(id, st)
				if !ok {
					return nil, false
				}
				return Sub(vc.heap(st, "$Fuel", SInt), i), true
			}
			if v0, ok := at(body); ok {
				out = append(out, autoVariant{text: "auto fuel() - " + id.Name, v0: v0, eval: at})
			}
			return true
		})
	}
	return out
}

// gotoTargets: the labels of this function that are the target of a goto whose label statement lies in the same function.
func (vc *VC) gotoTargets() map[string]bool {
	if vc.gotoT != nil {
		return vc.gotoT
	}
	vc.gotoT = map[string]bool{}
	labels := map[string]bool{}
	if vc.fi != nil && vc.fi.Decl != nil && vc.fi.Decl.Body != nil {
		ast.Inspect(vc.fi.Decl.Body, func(n ast.Node) bool {
			if l, ok := n.(*ast.LabeledStmt); ok {
				labels[l.Label.Name] = true
			}
			return true
		})
		ast.Inspect(vc.fi.Decl.Body, func(n ast.Node) bool {
			if b, ok := n.(*ast.BranchStmt); ok && b.Tok == token.GOTO && b.Label != nil && labels[b.Label.Name] {
				vc.gotoT[b.Label.Name] = true
			}
			return true
		})
	}
	return vc.gotoT
}
