#!/bin/bash
# Offline build of the govc verifier. Nothing under /tmp is needed afterwards.
set -e
cd "$(dirname "$0")"
export GOFLAGS=-mod=mod GOPROXY=off GOSUMDB=off GOTOOLCHAIN=local
mkdir -p bin evidence replays .work
(cd govc && go build -o ../bin/govc .)
echo "govc built"
