#!/bin/bash
# usage: try_seed.sh <patch.diff> <PROP> [tier]  -- applies the patch to /repo, runs the check, reverts.
P=$1; ID=$2; TIER=${3:-quick}
cd /repo || exit 2
if ! git diff --quiet; then echo "/repo dirty"; exit 2; fi
git apply "$P" || { echo "PATCH DOES NOT APPLY"; exit 3; }
cd /verif && ./check $ID --tier $TIER | cut -c1-600; rc=${PIPESTATUS[0]}
git -C /repo checkout -- . 
echo "check exit=$rc"
