#!/bin/bash
# usage: try_seed.sh <patch.diff> <PROP> [tier]  -- applies the patch to /repo, runs the check, reverts.
# The evidence file written by the mutant run is restored from git afterwards (evidence must describe the unchanged tree).
P=$1; ID=$2; TIER=${3:-quick}
cd /repo || exit 2
if ! git diff --quiet; then echo "/repo dirty"; exit 2; fi
git apply "$P" || { echo "PATCH DOES NOT APPLY"; exit 3; }
cd /verif && ./check $ID --tier $TIER | cut -c1-600; rc=${PIPESTATUS[0]}
git -C /repo checkout -- .
git -C /verif checkout -- evidence/$ID.json 2>/dev/null
echo "check exit=$rc"
