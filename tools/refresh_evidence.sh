#!/bin/bash
# Re-run every claimed check (quick) on the unchanged tree so that the committed evidence describes it.
cd /verif
if ! git -C /repo diff --quiet; then echo "/repo dirty"; exit 2; fi
for id in $(python3 -c "import json; print(' '.join(c['property_id'] for c in json.load(open('/verif/MANIFEST.json'))['checks']))"); do
  ./check $id --tier quick | grep -v KNOWN-FINDING | cut -c1-160
done
