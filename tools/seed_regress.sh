#!/bin/bash
# usage: seed_regress.sh [tier] [seed...]  -- runs each seeded change against the check of its property; one line per seed.
TIER=${1:-quick}; shift
cd /verif
DIR=/verif/seeded; [ -d $DIR/_incoming ] && DIR2=$DIR/_incoming
seeds="$@"
[ -z "$seeds" ] && seeds=$(ls $DIR $DIR2 2>/dev/null | grep -E '^C[0-9]+-m[0-9]+$' | sort -u)
for s in $seeds; do
  d=$DIR/$s; [ -d $d ] || d=$DIR2/$s
  id=${s%-*}
  P=$d/patch.diff; [ -f $d/patch.rebased.diff ] && P=$d/patch.rebased.diff
  if ! grep -q "\"property_id\": \"$id\"" MANIFEST.json; then echo "$s: property not claimed"; continue; fi
  out=$(timeout 3000 tools/try_seed.sh $P $id $TIER 2>&1)
  if echo "$out" | grep -q "^VIOLATION"; then
    echo "$s: CAUGHT $(echo "$out" | grep -m1 '^VIOLATION' | sed 's/.*obligation=//' | cut -c1-150)"
  elif echo "$out" | grep -q "PATCH DOES NOT APPLY"; then echo "$s: patch does not apply"
  else echo "$s: missed ($(echo "$out" | tail -1))"; fi
done
