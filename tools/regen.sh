#!/bin/bash
# Regenerate the obligation registries (only when the check passes on the unchanged tree).
cd /verif
for id in "$@"; do
  rm -f registry/$id.json registry/$id-partial.json registry/$id-sweep.json
  GOVC_WRITE_REGISTRY=1 ./check $id | grep -v KNOWN | cut -c1-200
done
