#!/bin/bash
# usage: verify_seed.sh <incoming-dir> ; confirms in a scratch worktree: patch applies at /repo HEAD, suite passes with it,
# demo fails with it and passes without it. Prints a one-line verdict.
D=$1; name=$(basename $D)
W=/tmp/scratch/vs_$name
P=$D/patch.diff; [ -f $D/patch.rebased.diff ] && P=$D/patch.rebased.diff
git -C /repo worktree add --detach $W HEAD >/dev/null 2>&1 || { echo "$name: worktree failed"; exit 2; }
cd $W
demo=$(ls $D/*_test.go 2>/dev/null | head -1)
pkgdir=$(python3 - <<PY
import json,re
m=json.load(open("$D/meta.json"))
c=m.get("demo_cmd","")
if isinstance(c,list): c=" ".join(c)
# guess package dir from "cp ... <dir>/" or "./<dir>"
mm=re.search(r'cp\s+\S+\s+(\S+)',c)
d="."
if mm:
    d=mm.group(1)
    import os
    if d.endswith(".go"): d=os.path.dirname(d) or "."
print(d.strip("/") or ".")
PY
)
[ -d "$pkgdir" ] || pkgdir=.
res=""
cp $demo $pkgdir/zz_seed_demo_test.go
if go test -vet=off -count=1 ./$pkgdir >/dev/null 2>&1; then res="$res demo-passes-unpatched"; else res="$res DEMO-FAILS-UNPATCHED"; fi
rm $pkgdir/zz_seed_demo_test.go
if git apply $P 2>/dev/null; then
  if go test -vet=off -count=1 ./... >/dev/null 2>&1; then res="$res suite-passes-patched"; else res="$res SUITE-FAILS-PATCHED"; fi
  cp $demo $pkgdir/zz_seed_demo_test.go
  if go test -vet=off -count=1 ./$pkgdir >/dev/null 2>&1; then res="$res DEMO-PASSES-PATCHED"; else res="$res demo-fails-patched"; fi
else res="$res PATCH-DOES-NOT-APPLY"; fi
cd /; git -C /repo worktree remove --force $W
echo "$name: pkg=$pkgdir$res"
