#!/bin/bash
# usage: import_seeds.sh <round-dir> <ID>...  copies <round-dir>/<ID>/_seed/m{1,2} to seeded/_incoming/<ID>-m<next free>
R=$1; shift
for ID in "$@"; do
  for k in 1 2; do
    src=$R/$ID/_seed/m$k
    [ -f $src/patch.diff ] || { echo "$ID m$k: no patch"; continue; }
    n=1; while [ -d /verif/seeded/_incoming/$ID-m$n ] || [ -d /verif/seeded/$ID-m$n ] || [ -d /verif/seeded/_neutralised/$ID-m$n ]; do n=$((n+1)); done
    mkdir -p /verif/seeded/_incoming/$ID-m$n
    cp $src/patch.diff $src/meta.json /verif/seeded/_incoming/$ID-m$n/
    cp $src/demo_test.go /verif/seeded/_incoming/$ID-m$n/demo_test.go
    echo "$ID m$k -> $ID-m$n"
  done
done
