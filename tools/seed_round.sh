#!/bin/bash
# usage: seed_round.sh <round-dir> <ID>...   creates, per property, a scratch worktree <round-dir>/<ID> of /repo HEAD with
# every verification file removed (committed on the detached HEAD so that `git diff` shows only the agent's change), the
# property text under _seed/PROPERTY.json, and the agent prompt under <round-dir>/<ID>.prompt (from seeded/_incoming/PROMPT-round5.tmpl).
R=$1; shift
mkdir -p $R
for ID in "$@"; do
  W=$R/$ID
  git -C /repo worktree add --detach $W HEAD >/dev/null 2>&1 || { echo "$ID: worktree failed"; continue; }
  ( cd $W && git rm -q $(git ls-files | grep -E 'zz_.*verif.*\.go$') && git -c user.name=seed -c user.email=seed@x commit -qm "scratch: without verification files" )
  mkdir -p $W/_seed
  python3 - "$ID" "$W" "$R" <<'PY'
import json,sys,glob,os
ID,W,R=sys.argv[1:4]
for l in open('/verif/properties.jsonl'):
    p=json.loads(l)
    if p['id']==ID: break
json.dump(p,open(W+'/_seed/PROPERTY.json','w'),indent=1)
used=[]
for m in sorted(glob.glob('/verif/seeded/%s-m*/meta.json'%ID))+sorted(glob.glob('/verif/seeded/_neutralised/%s-m*/meta.json'%ID)):
    try: used.append(json.load(open(m)).get('what_breaks','')[:260])
    except Exception: pass
pk={'C01':'js','C02':'js','C03':'html','C04':'css','C05':'svg','C06':'xml','C07':'json','C08':'.','C10':'html','C11':'html','C12':'.','C13':'.','C14':'css','C15':'.','C16':'js','C17':'html','C18':'.','C19':'cmd/minify','C20':'cmd/minify'}[ID]
t=open('/verif/seeded/_incoming/PROMPT-round5.tmpl').read().replace('/tmp/seed5',R)
t=t.replace('@ID@',ID).replace('@LID@',ID.lower()).replace('@PKG@',pk).replace('@USED@',' || '.join('(%d) %s'%(i+1,u) for i,u in enumerate(used)) or '(none)')
t+='\n\nIMPORTANT resource rule: run every `go test` with `-timeout 120s`, never start tests in the background, never run more than one `go test` at a time, and if a test hangs kill it (by PID) before continuing. Do not use pkill/killall with a name pattern.\n'
open('%s/%s.prompt'%(R,ID),'w').write(t)
PY
  echo "$ID ready"
done
