#!/bin/bash
# run a command in the background with output to /tmp/scratch/<name>.log : bg.sh <name> <timeout-s> <cmd...>
n=$1; t=$2; shift 2
mkdir -p /tmp/scratch
( /usr/bin/time -f "elapsed %es" timeout $t "$@" > /tmp/scratch/$n.log 2>&1 ; echo "exit=$?" >> /tmp/scratch/$n.log ) > /dev/null 2>&1 &
echo "started $n"
