#!/bin/bash
# Runs every claimed quick check on the unchanged tree (rewriting the evidence) and fails if any of them does not pass.
# Use before EVERY commit of /verif: `tools/precommit.sh && git commit ...`
cd /verif
if ! git -C /repo diff --quiet; then echo "/repo dirty"; exit 2; fi
bad=0
for id in $(python3 -c "import json; print(' '.join(c['property_id'] for c in json.load(open('/verif/MANIFEST.json'))['checks']))"); do
  out=$(./check $id --tier quick); rc=$?
  echo "$out" | grep -v KNOWN-FINDING | cut -c1-160
  if [ $rc -ne 0 ] || echo "$out" | grep -q '^VIOLATION'; then bad=1; fi
done
[ $bad -eq 0 ] && echo "precommit: all checks pass" || { echo "precommit: FAILURES - do not commit"; exit 1; }
