#!/usr/bin/env python3
# Regenerates /verif/MANIFEST.json from /verif/claims.json (claimed checks + not_applicable reasons).
import json, subprocess
props=[json.loads(l)['id'] for l in open('/verif/properties.jsonl')]
claims=json.load(open('/verif/claims.json'))
hooks=subprocess.run("git -C /repo log --format=%h --grep='^verif hook'",shell=True,capture_output=True,text=True).stdout.split()
checks=[]
for pid in props:
    c=claims["claimed"].get(pid)
    if not c: continue
    checks.append({"property_id":pid,"quick_cmd":f"./check {pid} --tier quick","thorough_cmd":f"./check {pid} --tier thorough",
      "evidence_file":f"/verif/evidence/{pid}.json","replay_cmd_template":f"./check {pid} --replay {{path}}","engine":"govc",
      "level_claimed":{"category":c.get("category","proof"),"text":c["text"],"design_ref":"DESIGN.md section 4 "+pid},
      "level_note":c["note"],"technique":c["technique"]})
na=[{"property_id":p,"reason":claims["not_applicable"].get(p,"slice not reached (build in progress); see DESIGN.md section 7")} for p in props if p not in claims["claimed"]]
m={"version":1,"setup_cmd":"./setup.sh",
 "hooks":{"guard":"verif","enable":"govc loads /repo with -tags=verif (comment-only contract files zz_contracts_verif.go and spec/harness files zz_spec_verif.go, both `//go:build verif`); replay tests run `go test -tags=verif -overlay`","baseline_off_cmd":"cd /repo && go test -vet=off -count=1 ./...","source_commits":hooks,"add_only":True},
 "engines":[{"name":"govc","path":"/verif/govc","serves_properties":sorted(claims["claimed"]),"kind_free_text":"own VC generator over the typed Go AST (go/packages+go/types) with //@ contracts in build-tag-guarded files; obligations discharged by z3-new 5.1.0 / cvc5 1.0.3 / z3 4.8.12; bounded mode: path-forking symbolic interpreter of the same sources"}],
 "checks":checks,"not_applicable":na,
 "notes":"Contract-based deductive verification with a self-written verifier (no Go verifier is installed). See DESIGN.md. fix: commits in /repo repair genuine defects found by the checks (known_findings.json lists them)."}
json.dump(m,open('/verif/MANIFEST.json','w'),indent=1)
print("checks:",[c["property_id"] for c in checks])
